import GoLevel.Model.Ownership
/-! Noninterference for the ownership model: when every boundary path copies, what the caller does to
its buffers cannot change what the DB returns.

* `Inv`  — one-state invariant: stored cells and caller-owned cells are allocated and *disjoint*;
  kept by every step (scribbles included) of a safe configuration (`inv_step`, `inv_exec`).
* `Rel`  — the scribbling run and the clean run agree on store, owned list, heap size and on the contents
  of every stored cell; kept by `step_rel` (same op on both sides) and `scribble_rel` (op only on the left).
* `run_rel` — hence equal outputs. -/
namespace GoLevel.Own

/-- the cells holding stored values -/
def State.storeCells (s : State) : List Cell := s.store.map (·.2.1)

/-- the state after a program (outputs dropped) -/
def exec (c : Cfg) : State → List Op → State
  | s, [] => s
  | s, op :: ops => exec c (step c s op).1 ops

/-- stored cells and caller-owned cells are allocated, and no stored cell is caller-owned -/
structure Inv (s : State) : Prop where
  valid : ∀ c : Nat, c ∈ s.storeCells → c < s.heap.length
  ownedValid : ∀ c : Nat, c ∈ s.owned → c < s.heap.length
  disj : ∀ c ∈ s.storeCells, c ∉ s.owned

/-- `s` (caller scribbles) and `t` (caller never touches a buffer) are related -/
structure Rel (s t : State) : Prop where
  store : s.store = t.store
  owned : s.owned = t.owned
  len : s.heap.length = t.heap.length
  inv : Inv s
  same : ∀ c ∈ s.storeCells, s.read c = t.read c

/-! ## field lemmas for the primitive state operations -/

@[simp] theorem alloc_heap (s : State) (b : Bytes) : (s.alloc b).1.heap = s.heap ++ [b] := rfl
@[simp] theorem alloc_store (s : State) (b : Bytes) : (s.alloc b).1.store = s.store := rfl
@[simp] theorem alloc_owned (s : State) (b : Bytes) : (s.alloc b).1.owned = s.owned := rfl
@[simp] theorem alloc_snd (s : State) (b : Bytes) : (s.alloc b).2 = s.heap.length := rfl
@[simp] theorem alloc_storeCells (s : State) (b : Bytes) : (s.alloc b).1.storeCells = s.storeCells := rfl
@[simp] theorem give_heap (s : State) (c : Nat) : (s.give c).heap = s.heap := rfl
@[simp] theorem give_store (s : State) (c : Nat) : (s.give c).store = s.store := rfl
@[simp] theorem give_owned (s : State) (c : Nat) : (s.give c).owned = s.owned ++ [c] := rfl
@[simp] theorem give_storeCells (s : State) (c : Nat) : (s.give c).storeCells = s.storeCells := rfl
@[simp] theorem give_read (s : State) (c x : Nat) : (s.give c).read x = s.read x := rfl
@[simp] theorem bind_heap (s : State) (k : Bytes) (c : Nat) : (s.bind k c).heap = s.heap := rfl
@[simp] theorem bind_owned (s : State) (k : Bytes) (c : Nat) : (s.bind k c).owned = s.owned := rfl
@[simp] theorem bind_read (s : State) (k : Bytes) (c x : Nat) : (s.bind k c).read x = s.read x := rfl
theorem bind_store (s : State) (k : Bytes) (c : Nat) :
    (s.bind k c).store = (k, c, .mem) :: s.store.filter (·.1 ≠ k) := rfl

theorem read_alloc_old (s : State) (b : Bytes) (c : Nat) (h : c < s.heap.length) :
    (s.alloc b).1.read c = s.read c := by
  simp [State.alloc, State.read, List.getD_eq_getElem?_getD, List.getElem?_append_left h]

theorem read_alloc_new (s : State) (b : Bytes) : (s.alloc b).1.read s.heap.length = b := by
  simp [State.alloc, State.read, List.getD_eq_getElem?_getD]

theorem lookup_mem {s : State} {k : Bytes} {cell : Nat} {loc : Loc} (h : s.lookup k = some (cell, loc)) :
    cell ∈ s.storeCells := by
  simp only [State.lookup, Option.map_eq_some_iff] at h
  obtain ⟨⟨k', c', l'⟩, hf, heq⟩ := h
  have hm := List.mem_of_find?_eq_some hf
  simp only [Prod.mk.injEq] at heq
  simp only [State.storeCells, List.mem_map]
  exact ⟨(k', c', l'), hm, heq.1⟩

/-- after `bind k c` the stored cells are `c` and some of the old ones -/
theorem mem_bind_storeCells {s : State} {k : Bytes} {c x : Nat} (h : x ∈ (s.bind k c).storeCells) :
    x = c ∨ x ∈ s.storeCells := by
  simp only [State.storeCells, bind_store, List.map_cons, List.mem_cons, List.mem_map,
    List.mem_filter] at h
  rcases h with h | ⟨e, ⟨he, _⟩, rfl⟩
  · exact .inl h
  · exact .inr (List.mem_map.2 ⟨e, he, rfl⟩)

/-- `flush` does not change which cells are stored -/
theorem flush_storeCells (c : Cfg) (s : State) : (step c s .flush).1.storeCells = s.storeCells := by
  simp [step, State.storeCells, List.map_map, Function.comp_def]

/-! ## the invariant -/

theorem inv_init : Inv State.init :=
  ⟨by simp [State.init, State.storeCells], by simp [State.init], by simp [State.init, State.storeCells]⟩

theorem inv_alloc {s : State} (h : Inv s) (b : Bytes) : Inv (s.alloc b).1 := by
  refine ⟨?_, ?_, ?_⟩
  · intro x hx; have := h.valid x hx; simp; omega
  · intro x hx; have := h.ownedValid x hx; simp; omega
  · intro x hx; exact h.disj x hx

theorem inv_give {s : State} (h : Inv s) {c : Nat} (hlt : c < s.heap.length) (hns : c ∉ s.storeCells) :
    Inv (s.give c) := by
  refine ⟨h.valid, ?_, ?_⟩
  · intro x hx
    simp only [give_owned, List.mem_append, List.mem_singleton] at hx
    rcases hx with hx | rfl
    · exact h.ownedValid x hx
    · exact hlt
  · intro x hx
    simp only [give_owned, List.mem_append, List.mem_singleton, not_or]
    exact ⟨h.disj x hx, fun e => hns (e ▸ hx)⟩

theorem inv_bind {s : State} (h : Inv s) (k : Bytes) {c : Nat} (hlt : c < s.heap.length) (hno : c ∉ s.owned) :
    Inv (s.bind k c) := by
  refine ⟨?_, h.ownedValid, ?_⟩
  · intro x hx
    rcases mem_bind_storeCells hx with rfl | hx
    · exact hlt
    · exact h.valid x hx
  · intro x hx
    rcases mem_bind_storeCells hx with rfl | hx
    · exact hno
    · exact h.disj x hx

/-- a fresh copy handed to the caller keeps the invariant -/
theorem inv_hand_copy {s : State} (h : Inv s) (cell : Nat) : Inv (s.hand true cell) := by
  simp only [State.hand, if_true, alloc_snd]
  apply inv_give (inv_alloc h _)
  · simp
  · intro hm; have := h.valid _ hm; omega

theorem inv_scribble (c : Cfg) {s : State} (h : Inv s) (i : Nat) (b : Bytes) :
    Inv (step c s (.scribble i b)).1 := by
  simp only [step]
  cases s.owned[i]? with
  | none => exact h
  | some cell =>
    refine ⟨?_, ?_, h.disj⟩
    · intro x hx; simpa using h.valid x hx
    · intro x hx; simpa using h.ownedValid x hx

theorem safe_flags {c : Cfg} (hc : c.safe = true) :
    c.putCopies = true ∧ c.memGetCopies = true ∧ c.tableGetCopies = true ∧ c.iterCopies = true := by
  simp only [Cfg.safe, Bool.and_eq_true] at hc
  exact ⟨hc.1.1.1, hc.1.1.2, hc.1.2, hc.2⟩

theorem safe_getCopies {c : Cfg} (hc : c.safe = true) (loc : Loc) : c.getCopies loc = true := by
  obtain ⟨_, hm, ht, _⟩ := safe_flags hc
  cases loc <;> simp [Cfg.getCopies, hm, ht]

/-- every step of a safe configuration — the caller's scribbles included — keeps the invariant -/
theorem inv_step (c : Cfg) (hc : c.safe = true) {s : State} (h : Inv s) (op : Op) : Inv (step c s op).1 := by
  obtain ⟨hput, _, _, hit⟩ := safe_flags hc
  cases op with
  | scribble i b => exact inv_scribble c h i b
  | flush =>
    refine ⟨?_, h.ownedValid, ?_⟩
    · intro x hx; rw [flush_storeCells] at hx; exact h.valid x hx
    · intro x hx; rw [flush_storeCells] at hx; exact h.disj x hx
  | put k v =>
    simp only [step, hput, if_true, alloc_snd]
    have h1 : Inv ((s.alloc v).1.give s.heap.length) := by
      apply inv_give (inv_alloc h _)
      · simp
      · intro hm; have := h.valid _ hm; omega
    apply inv_bind (inv_alloc h1 _)
    · simp
    · intro hm; have := h1.ownedValid _ hm; omega
  | get k =>
    simp only [step]
    cases hl : s.lookup k with
    | none => exact h
    | some p => obtain ⟨cell, loc⟩ := p; simp only [safe_getCopies hc]; exact inv_hand_copy h cell
  | iterAt k =>
    simp only [step]
    cases hl : s.lookup k with
    | none => exact h
    | some p => obtain ⟨cell, loc⟩ := p; simp only [hit]; exact inv_hand_copy h cell

theorem inv_exec (c : Cfg) (hc : c.safe = true) (ops : List Op) : ∀ s, Inv s → Inv (exec c s ops) := by
  induction ops with
  | nil => intro s h; exact h
  | cons op ops ih => intro s h; exact ih _ (inv_step c hc h op)

/-! ## the relation -/

theorem rel_init : Rel State.init State.init := ⟨rfl, rfl, rfl, inv_init, fun _ _ => rfl⟩

theorem rel_storeCells {s t : State} (h : Rel s t) : t.storeCells = s.storeCells := by
  simp [State.storeCells, h.store]

theorem rel_lookup {s t : State} (h : Rel s t) (k : Bytes) : t.lookup k = s.lookup k := by
  simp [State.lookup, h.store]

theorem rel_alloc {s t : State} (h : Rel s t) (b : Bytes) : Rel (s.alloc b).1 (t.alloc b).1 := by
  refine ⟨h.store, h.owned, by simp [h.len], inv_alloc h.inv b, ?_⟩
  intro x hx
  have hv := h.inv.valid x hx
  rw [read_alloc_old s b x hv, read_alloc_old t b x (h.len ▸ hv)]
  exact h.same x hx

theorem rel_give {s t : State} (h : Rel s t) {c : Nat} (hlt : c < s.heap.length) (hns : c ∉ s.storeCells) :
    Rel (s.give c) (t.give c) :=
  ⟨h.store, by simp [h.owned], h.len, inv_give h.inv hlt hns, h.same⟩

theorem rel_bind {s t : State} (h : Rel s t) (k : Bytes) {c : Nat} (hlt : c < s.heap.length)
    (hno : c ∉ s.owned) (hrd : s.read c = t.read c) : Rel (s.bind k c) (t.bind k c) := by
  refine ⟨by simp [bind_store, h.store], h.owned, h.len, inv_bind h.inv k hlt hno, ?_⟩
  intro x hx
  rcases mem_bind_storeCells hx with rfl | hx
  · exact hrd
  · exact h.same x hx

/-- handing out fresh copies of a stored cell on both sides -/
theorem rel_hand_copy {s t : State} (h : Rel s t) {cell : Nat} (hm : cell ∈ s.storeCells) :
    Rel (s.hand true cell) (t.hand true cell) := by
  simp only [State.hand, if_true, alloc_snd, ← h.len, ← h.same cell hm]
  apply rel_give (rel_alloc h _)
  · simp
  · intro hm'; have := h.inv.valid _ hm'; omega

/-- a non-scribble step on related states gives related states and the same output -/
theorem step_rel (c : Cfg) (hc : c.safe = true) (s t : State) (h : Rel s t) (op : Op) (hop : op.isScribble = false) :
    Rel (step c s op).1 (step c t op).1 ∧ (step c s op).2 = (step c t op).2 := by
  obtain ⟨hput, _, _, hit⟩ := safe_flags hc
  cases op with
  | scribble i b => simp [Op.isScribble] at hop
  | flush =>
    refine ⟨⟨by simp [step, h.store], h.owned, h.len, inv_step c hc h.inv .flush, ?_⟩, rfl⟩
    intro x hx
    rw [flush_storeCells] at hx
    exact h.same x hx
  | put k v =>
    simp only [step, hput, if_true, alloc_snd, and_true]
    have h1 : Rel ((s.alloc v).1.give s.heap.length) ((t.alloc v).1.give t.heap.length) := by
      rw [← h.len]
      apply rel_give (rel_alloc h _)
      · simp
      · intro hm; have := h.inv.valid _ hm; omega
    have h2 := rel_alloc h1 v
    have hl2 := h1.len
    simp only [give_heap] at hl2
    simp only [give_heap, ← hl2]
    apply rel_bind h2
    · simp
    · intro hm; have := h1.inv.ownedValid _ hm; simp at this
    · have e1 := read_alloc_new ((s.alloc v).1.give s.heap.length) v
      have e2 := read_alloc_new ((t.alloc v).1.give t.heap.length) v
      simp only [give_heap, ← hl2] at e1 e2
      rw [e1, e2]
  | get k =>
    simp only [step, rel_lookup h]
    cases hl : s.lookup k with
    | none => exact ⟨h, rfl⟩
    | some p =>
      obtain ⟨cell, loc⟩ := p
      have hm := lookup_mem hl
      simp only [safe_getCopies hc, h.same cell hm, and_true]
      exact rel_hand_copy h hm
  | iterAt k =>
    simp only [step, rel_lookup h]
    cases hl : s.lookup k with
    | none => exact ⟨h, rfl⟩
    | some p =>
      obtain ⟨cell, loc⟩ := p
      have hm := lookup_mem hl
      simp only [hit, h.same cell hm, and_true]
      exact rel_hand_copy h hm

/-- a scribble keeps the relation (it only touches caller-owned cells) and returns nothing -/
theorem scribble_rel (c : Cfg) (s t : State) (h : Rel s t) (i : Nat) (b : Bytes) :
    Rel (step c s (.scribble i b)).1 t ∧ (step c s (.scribble i b)).2 = none := by
  have hinv := inv_scribble c h.inv i b
  simp only [step] at hinv ⊢
  cases ho : s.owned[i]? with
  | none => exact ⟨h, rfl⟩
  | some cell =>
    rw [ho] at hinv
    have hcell : cell ∈ s.owned := List.mem_of_getElem? ho
    refine ⟨⟨h.store, h.owned, by simp [h.len], hinv, ?_⟩, rfl⟩
    intro x hx
    have hx' : x ∈ s.storeCells := hx
    have hne : cell ≠ x := fun e => h.inv.disj x hx' (e ▸ hcell)
    have := h.same x hx'
    simp only [State.read, List.getD_eq_getElem?_getD] at this ⊢
    rw [List.getElem?_set_ne hne]; exact this

theorem clean_scribble (i : Nat) (b : Bytes) (ops : List Op) : clean (Op.scribble i b :: ops) = clean ops := by
  simp [clean, Op.isScribble]

theorem clean_keep (op : Op) (ops : List Op) (h : op.isScribble = false) : clean (op :: ops) = op :: clean ops := by
  simp [clean, h]

theorem run_rel (c : Cfg) (hc : c.safe = true) (ops : List Op) :
    ∀ s t, Rel s t → run c s ops = run c t (clean ops) := by
  induction ops with
  | nil => intro s t _; simp [run, clean]
  | cons op ops ih =>
    intro s t h
    cases hs : op.isScribble with
    | true =>
      cases op with
      | scribble i b =>
        have := scribble_rel c s t h i b
        rw [clean_scribble, run, this.2]
        exact ih _ _ this.1
      | _ => simp [Op.isScribble] at hs
    | false =>
      have := step_rel c hc s t h op hs
      rw [clean_keep op ops hs, run, run, this.2]
      cases (step c t op).2 with
      | none => exact ih _ _ this.1
      | some b => simp only; rw [ih _ _ this.1]

/-! ## what a reading call hands to the caller -/

/-- under the invariant, a copying hand-over gives the caller a cell that is new: not stored, not already
owned, different from the stored cell, holding the stored bytes; the store is untouched -/
theorem hand_copy_fresh {s : State} (h : Inv s) {cell : Nat} (hm : cell ∈ s.storeCells) :
    (s.hand true cell).owned = s.owned ++ [s.heap.length] ∧
    (s.hand true cell).store = s.store ∧
    s.heap.length ∉ (s.hand true cell).storeCells ∧
    s.heap.length ∉ s.owned ∧
    s.heap.length ≠ cell ∧
    (s.hand true cell).read s.heap.length = s.read cell ∧
    (s.hand true cell).read cell = s.read cell := by
  have hv := h.valid cell hm
  simp only [State.hand, if_true, alloc_snd, give_owned, alloc_owned, give_store, alloc_store,
    give_storeCells, alloc_storeCells, give_read, true_and]
  refine ⟨?_, ?_, ?_, read_alloc_new _ _, read_alloc_old _ _ _ hv⟩
  · intro hm'; have := h.valid _ hm'; omega
  · intro hm'; have := h.ownedValid _ hm'; omega
  · omega

/-- the final states of the scribbling run and of the clean run are related too -/
theorem exec_rel (c : Cfg) (hc : c.safe = true) (ops : List Op) :
    ∀ s t, Rel s t → Rel (exec c s ops) (exec c t (clean ops)) := by
  induction ops with
  | nil => intro s t h; exact h
  | cons op ops ih =>
    intro s t h
    cases hs : op.isScribble with
    | true =>
      cases op with
      | scribble i b => rw [clean_scribble, exec]; exact ih _ _ (scribble_rel c s t h i b).1
      | _ => simp [Op.isScribble] at hs
    | false => rw [clean_keep op ops hs, exec, exec]; exact ih _ _ (step_rel c hc s t h op hs).1

/-- a copying `put` from a state satisfying the invariant: the caller's argument buffer is the new owned cell
`s.heap.length`, the key is bound to the *next* cell, which holds `v` and which the caller does not own -/
theorem put_copy_spec (c : Cfg) (hp : c.putCopies = true) {s : State} (h : Inv s) (k v : Bytes) :
    (step c s (.put k v)).1.owned = s.owned ++ [s.heap.length] ∧
    (step c s (.put k v)).1.lookup k = some (s.heap.length + 1, .mem) ∧
    (step c s (.put k v)).1.read (s.heap.length + 1) = v ∧
    s.heap.length + 1 ∉ (step c s (.put k v)).1.owned := by
  have e := read_alloc_new ((s.alloc v).1.give s.heap.length) v
  simp only [give_heap, alloc_heap, List.length_append, List.length_cons, List.length_nil] at e
  refine ⟨by simp [step, hp], by simp [step, hp, State.lookup, bind_store], ?_, ?_⟩
  · simpa [step, hp] using e
  · simp only [step, hp, if_true, bind_owned, alloc_owned, give_owned, alloc_snd, List.mem_append,
      List.mem_singleton, not_or]
    exact ⟨fun hm => by have := h.ownedValid _ hm; omega, by omega⟩

end GoLevel.Own
