import GoLevel.Proofs.LocksOrphanTok
/-! Orphaned resources stay orphaned: the invariants behind the leak witnesses of C09 (any configuration). -/
namespace GoLevel.Locks
set_option linter.unusedSimpArgs false

/-- `compCommitLk` is locked and nobody will unlock it; `mCompaction` is blocked in `compCommitLk.Lock()` -/
def ClkOrphan (s : St) : Prop :=
  s.clk = true ∧ tot clkW s.ws = 0 ∧ bgClk s.tc = 0 ∧ (∃ w, s.mc = .run w .lockClk)

theorem step_clkOrphan (cfg : Cfg) (s t : St) (f : Bool) (h : Step cfg f s t) (inv : ClkOrphan s) : ClkOrphan t := by
  unfold ClkOrphan at *
  obtain ⟨h1, h2, h3, w0, h4⟩ := inv
  cases h with
  | startPut _ i hi =>
    have l0 := le_tot clkW _ _ _ hi
    (try simp only [St.setDone, St.setBg, ↓reduceIte, Bool.false_eq_true, Bool.and_false, Bool.and_true, Bool.false_and, Bool.true_and]) <;> (repeat' split) <;> simp_all [tot_set_eq _ _ _ _ _ hi, tot_ackWs_clk, clkW, CompErr.next_ne_closing, b2n_true, b2n_false, bgClk_run, bgClk_idle, bgClk_exited, bgClk_parked, bgClk_clearW, bgClk_afterCmd, bphClk, St.bg, onOk, onErr, selNext, afterSetErr, srW] <;> (try omega)
  | startWrite _ i hi =>
    have l0 := le_tot clkW _ _ _ hi
    (try simp only [St.setDone, St.setBg, ↓reduceIte, Bool.false_eq_true, Bool.and_false, Bool.and_true, Bool.false_and, Bool.true_and]) <;> (repeat' split) <;> simp_all [tot_set_eq _ _ _ _ _ hi, tot_ackWs_clk, clkW, CompErr.next_ne_closing, b2n_true, b2n_false, bgClk_run, bgClk_idle, bgClk_exited, bgClk_parked, bgClk_clearW, bgClk_afterCmd, bphClk, St.bg, onOk, onErr, selNext, afterSetErr, srW] <;> (try omega)
  | startOtx _ i hi =>
    have l0 := le_tot clkW _ _ _ hi
    (try simp only [St.setDone, St.setBg, ↓reduceIte, Bool.false_eq_true, Bool.and_false, Bool.and_true, Bool.false_and, Bool.true_and]) <;> (repeat' split) <;> simp_all [tot_set_eq _ _ _ _ _ hi, tot_ackWs_clk, clkW, CompErr.next_ne_closing, b2n_true, b2n_false, bgClk_run, bgClk_idle, bgClk_exited, bgClk_parked, bgClk_clearW, bgClk_afterCmd, bphClk, St.bg, onOk, onErr, selNext, afterSetErr, srW] <;> (try omega)
  | startCommit _ i hi hu =>
    have l0 := le_tot clkW _ _ _ hi
    (try simp only [St.setDone, St.setBg, ↓reduceIte, Bool.false_eq_true, Bool.and_false, Bool.and_true, Bool.false_and, Bool.true_and]) <;> (repeat' split) <;> simp_all [tot_set_eq _ _ _ _ _ hi, tot_ackWs_clk, clkW, CompErr.next_ne_closing, b2n_true, b2n_false, bgClk_run, bgClk_idle, bgClk_exited, bgClk_parked, bgClk_clearW, bgClk_afterCmd, bphClk, St.bg, onOk, onErr, selNext, afterSetErr, srW] <;> (try omega)
  | startDiscard _ i hi hu =>
    have l0 := le_tot clkW _ _ _ hi
    (try simp only [St.setDone, St.setBg, ↓reduceIte, Bool.false_eq_true, Bool.and_false, Bool.and_true, Bool.false_and, Bool.true_and]) <;> (repeat' split) <;> simp_all [tot_set_eq _ _ _ _ _ hi, tot_ackWs_clk, clkW, CompErr.next_ne_closing, b2n_true, b2n_false, bgClk_run, bgClk_idle, bgClk_exited, bgClk_parked, bgClk_clearW, bgClk_afterCmd, bphClk, St.bg, onOk, onErr, selNext, afterSetErr, srW] <;> (try omega)
  | startCR _ i hi =>
    have l0 := le_tot clkW _ _ _ hi
    (try simp only [St.setDone, St.setBg, ↓reduceIte, Bool.false_eq_true, Bool.and_false, Bool.and_true, Bool.false_and, Bool.true_and]) <;> (repeat' split) <;> simp_all [tot_set_eq _ _ _ _ _ hi, tot_ackWs_clk, clkW, CompErr.next_ne_closing, b2n_true, b2n_false, bgClk_run, bgClk_idle, bgClk_exited, bgClk_parked, bgClk_clearW, bgClk_afterCmd, bphClk, St.bg, onOk, onErr, selNext, afterSetErr, srW] <;> (try omega)
  | startSR _ i hi ha =>
    have l0 := le_tot clkW _ _ _ hi
    (try simp only [St.setDone, St.setBg, ↓reduceIte, Bool.false_eq_true, Bool.and_false, Bool.and_true, Bool.false_and, Bool.true_and]) <;> (repeat' split) <;> simp_all [tot_set_eq _ _ _ _ _ hi, tot_ackWs_clk, clkW, CompErr.next_ne_closing, b2n_true, b2n_false, bgClk_run, bgClk_idle, bgClk_exited, bgClk_parked, bgClk_clearW, bgClk_afterCmd, bphClk, St.bg, onOk, onErr, selNext, afterSetErr, srW] <;> (try omega)
  | startClose _ i hi =>
    have l0 := le_tot clkW _ _ _ hi
    (try simp only [St.setDone, St.setBg, ↓reduceIte, Bool.false_eq_true, Bool.and_false, Bool.and_true, Bool.false_and, Bool.true_and]) <;> (repeat' split) <;> simp_all [tot_set_eq _ _ _ _ _ hi, tot_ackWs_clk, clkW, CompErr.next_ne_closing, b2n_true, b2n_false, bgClk_run, bgClk_idle, bgClk_exited, bgClk_parked, bgClk_clearW, bgClk_afterCmd, bphClk, St.bg, onOk, onErr, selNext, afterSetErr, srW] <;> (try omega)
  | selTok _ i p q hi hq ht =>
    have l0 := le_tot clkW _ _ _ hi
    cases p <;> simp only [selNext] at hq <;> (try contradiction) <;> cases hq <;> simp_all [tot_set_eq _ _ _ _ _ hi, tot_ackWs_clk, clkW, CompErr.next_ne_closing, b2n_true, b2n_false, bgClk_run, bgClk_idle, bgClk_exited, bgClk_parked, bgClk_clearW, bgClk_afterCmd, bphClk, St.bg, onOk, onErr, selNext, afterSetErr, srW] <;> (try omega)
  | selPerErr _ i p q hi hq he =>
    have l0 := le_tot clkW _ _ _ hi
    cases p <;> simp only [selNext] at hq <;> (try contradiction) <;> cases hq <;> simp_all [tot_set_eq _ _ _ _ _ hi, tot_ackWs_clk, clkW, CompErr.next_ne_closing, b2n_true, b2n_false, bgClk_run, bgClk_idle, bgClk_exited, bgClk_parked, bgClk_clearW, bgClk_afterCmd, bphClk, St.bg, onOk, onErr, selNext, afterSetErr, srW] <;> (try omega)
  | selClosed _ i p q hi hq hc =>
    have l0 := le_tot clkW _ _ _ hi
    cases p <;> simp only [selNext] at hq <;> (try contradiction) <;> cases hq <;> simp_all [tot_set_eq _ _ _ _ _ hi, tot_ackWs_clk, clkW, CompErr.next_ne_closing, b2n_true, b2n_false, bgClk_run, bgClk_idle, bgClk_exited, bgClk_parked, bgClk_clearW, bgClk_afterCmd, bphClk, St.bg, onOk, onErr, selNext, afterSetErr, srW] <;> (try omega)
  | putNoWait _ i hi =>
    have l0 := le_tot clkW _ _ _ hi
    (try simp only [St.setDone, St.setBg, ↓reduceIte, Bool.false_eq_true, Bool.and_false, Bool.and_true, Bool.false_and, Bool.true_and]) <;> (repeat' split) <;> simp_all [tot_set_eq _ _ _ _ _ hi, tot_ackWs_clk, clkW, CompErr.next_ne_closing, b2n_true, b2n_false, bgClk_run, bgClk_idle, bgClk_exited, bgClk_parked, bgClk_clearW, bgClk_afterCmd, bphClk, St.bg, onOk, onErr, selNext, afterSetErr, srW] <;> (try omega)
  | putWait _ i b hi =>
    have l0 := le_tot clkW _ _ _ hi
    cases b <;> (try simp only [St.setDone, St.setBg, ↓reduceIte, Bool.false_eq_true, Bool.and_false, Bool.and_true, Bool.false_and, Bool.true_and]) <;> (repeat' split) <;> simp_all [tot_set_eq _ _ _ _ _ hi, tot_ackWs_clk, clkW, CompErr.next_ne_closing, b2n_true, b2n_false, bgClk_run, bgClk_idle, bgClk_exited, bgClk_parked, bgClk_clearW, bgClk_afterCmd, bphClk, St.bg, onOk, onErr, selNext, afterSetErr, srW] <;> (try omega)
  | putJournalOk _ i hi =>
    have l0 := le_tot clkW _ _ _ hi
    (try simp only [St.setDone, St.setBg, ↓reduceIte, Bool.false_eq_true, Bool.and_false, Bool.and_true, Bool.false_and, Bool.true_and]) <;> (repeat' split) <;> simp_all [tot_set_eq _ _ _ _ _ hi, tot_ackWs_clk, clkW, CompErr.next_ne_closing, b2n_true, b2n_false, bgClk_run, bgClk_idle, bgClk_exited, bgClk_parked, bgClk_clearW, bgClk_afterCmd, bphClk, St.bg, onOk, onErr, selNext, afterSetErr, srW] <;> (try omega)
  | putJournalFail _ i hi =>
    have l0 := le_tot clkW _ _ _ hi
    (try simp only [St.setDone, St.setBg, ↓reduceIte, Bool.false_eq_true, Bool.and_false, Bool.and_true, Bool.false_and, Bool.true_and]) <;> (repeat' split) <;> simp_all [tot_set_eq _ _ _ _ _ hi, tot_ackWs_clk, clkW, CompErr.next_ne_closing, b2n_true, b2n_false, bgClk_run, bgClk_idle, bgClk_exited, bgClk_parked, bgClk_clearW, bgClk_afterCmd, bphClk, St.bg, onOk, onErr, selNext, afterSetErr, srW] <;> (try omega)
  | putUnlock _ i r hi =>
    have l0 := le_tot clkW _ _ _ hi
    cases r <;> (try simp only [St.setDone, St.setBg, ↓reduceIte, Bool.false_eq_true, Bool.and_false, Bool.and_true, Bool.false_and, Bool.true_and]) <;> (repeat' split) <;> simp_all [tot_set_eq _ _ _ _ _ hi, tot_ackWs_clk, clkW, CompErr.next_ne_closing, b2n_true, b2n_false, bgClk_run, bgClk_idle, bgClk_exited, bgClk_parked, bgClk_clearW, bgClk_afterCmd, bphClk, St.bg, onOk, onErr, selNext, afterSetErr, srW] <;> (try omega)
  | cwSendGo _ i b site lg hi hb hro =>
    have l0 := le_tot clkW _ _ _ hi
    cases site <;> cases b <;> cases lg <;> (try simp only [St.setDone, St.setBg, ↓reduceIte, Bool.false_eq_true, Bool.and_false, Bool.and_true, Bool.false_and, Bool.true_and]) <;> (repeat' split) <;> simp_all [tot_set_eq _ _ _ _ _ hi, tot_ackWs_clk, clkW, CompErr.next_ne_closing, b2n_true, b2n_false, bgClk_run, bgClk_idle, bgClk_exited, bgClk_parked, bgClk_clearW, bgClk_afterCmd, bphClk, St.bg, onOk, onErr, selNext, afterSetErr, srW] <;> (try omega) <;> (try exact clearW_run _ _ _)
  | cwSendRO _ i site lg hi hb hp hro =>
    have l0 := le_tot clkW _ _ _ hi
    cases site <;> cases lg <;> (try simp only [St.setDone, St.setBg, ↓reduceIte, Bool.false_eq_true, Bool.and_false, Bool.and_true, Bool.false_and, Bool.true_and]) <;> (repeat' split) <;> simp_all [tot_set_eq _ _ _ _ _ hi, tot_ackWs_clk, clkW, CompErr.next_ne_closing, b2n_true, b2n_false, bgClk_run, bgClk_idle, bgClk_exited, bgClk_parked, bgClk_clearW, bgClk_afterCmd, bphClk, St.bg, onOk, onErr, selNext, afterSetErr, srW] <;> (try omega)
  | cwSendErr _ i b site lg hi he =>
    have l0 := le_tot clkW _ _ _ hi
    cases site <;> cases b <;> cases lg <;> (try simp only [St.setDone, St.setBg, ↓reduceIte, Bool.false_eq_true, Bool.and_false, Bool.and_true, Bool.false_and, Bool.true_and]) <;> (repeat' split) <;> simp_all [tot_set_eq _ _ _ _ _ hi, tot_ackWs_clk, clkW, CompErr.next_ne_closing, b2n_true, b2n_false, bgClk_run, bgClk_idle, bgClk_exited, bgClk_parked, bgClk_clearW, bgClk_afterCmd, bphClk, St.bg, onOk, onErr, selNext, afterSetErr, srW] <;> (try omega) <;> (try exact clearW_run _ _ _)
  | cwAckErr _ i b site lg hi he =>
    have l0 := le_tot clkW _ _ _ hi
    cases site <;> cases b <;> cases lg <;> (try simp only [St.setDone, St.setBg, ↓reduceIte, Bool.false_eq_true, Bool.and_false, Bool.and_true, Bool.false_and, Bool.true_and]) <;> (repeat' split) <;> simp_all [tot_set_eq _ _ _ _ _ hi, tot_ackWs_clk, clkW, CompErr.next_ne_closing, b2n_true, b2n_false, bgClk_run, bgClk_idle, bgClk_exited, bgClk_parked, bgClk_clearW, bgClk_afterCmd, bphClk, St.bg, onOk, onErr, selNext, afterSetErr, srW] <;> (try omega) <;> (try exact clearW_run _ _ _)
  | otxRotate _ i lg hi =>
    have l0 := le_tot clkW _ _ _ hi
    cases lg <;> (try simp only [St.setDone, St.setBg, ↓reduceIte, Bool.false_eq_true, Bool.and_false, Bool.and_true, Bool.false_and, Bool.true_and]) <;> (repeat' split) <;> simp_all [tot_set_eq _ _ _ _ _ hi, tot_ackWs_clk, clkW, CompErr.next_ne_closing, b2n_true, b2n_false, bgClk_run, bgClk_idle, bgClk_exited, bgClk_parked, bgClk_clearW, bgClk_afterCmd, bphClk, St.bg, onOk, onErr, selNext, afterSetErr, srW] <;> (try omega)
  | otxNoRotate _ i lg hi =>
    have l0 := le_tot clkW _ _ _ hi
    cases lg <;> (try simp only [St.setDone, St.setBg, ↓reduceIte, Bool.false_eq_true, Bool.and_false, Bool.and_true, Bool.false_and, Bool.true_and]) <;> (repeat' split) <;> simp_all [tot_set_eq _ _ _ _ _ hi, tot_ackWs_clk, clkW, CompErr.next_ne_closing, b2n_true, b2n_false, bgClk_run, bgClk_idle, bgClk_exited, bgClk_parked, bgClk_clearW, bgClk_afterCmd, bphClk, St.bg, onOk, onErr, selNext, afterSetErr, srW] <;> (try omega)
  | otxNewMemOk _ i lg hi =>
    have l0 := le_tot clkW _ _ _ hi
    cases lg <;> (try simp only [St.setDone, St.setBg, ↓reduceIte, Bool.false_eq_true, Bool.and_false, Bool.and_true, Bool.false_and, Bool.true_and]) <;> (repeat' split) <;> simp_all [tot_set_eq _ _ _ _ _ hi, tot_ackWs_clk, clkW, CompErr.next_ne_closing, b2n_true, b2n_false, bgClk_run, bgClk_idle, bgClk_exited, bgClk_parked, bgClk_clearW, bgClk_afterCmd, bphClk, St.bg, onOk, onErr, selNext, afterSetErr, srW] <;> (try omega)
  | otxNewMemFail _ i lg hi =>
    have l0 := le_tot clkW _ _ _ hi
    cases lg <;> (try simp only [St.setDone, St.setBg, ↓reduceIte, Bool.false_eq_true, Bool.and_false, Bool.and_true, Bool.false_and, Bool.true_and]) <;> (repeat' split) <;> simp_all [tot_set_eq _ _ _ _ _ hi, tot_ackWs_clk, clkW, CompErr.next_ne_closing, b2n_true, b2n_false, bgClk_run, bgClk_idle, bgClk_exited, bgClk_parked, bgClk_clearW, bgClk_afterCmd, bphClk, St.bg, onOk, onErr, selNext, afterSetErr, srW] <;> (try omega)
  | otxNoWaitComp _ i lg hi =>
    have l0 := le_tot clkW _ _ _ hi
    cases lg <;> (try simp only [St.setDone, St.setBg, ↓reduceIte, Bool.false_eq_true, Bool.and_false, Bool.and_true, Bool.false_and, Bool.true_and]) <;> (repeat' split) <;> simp_all [tot_set_eq _ _ _ _ _ hi, tot_ackWs_clk, clkW, CompErr.next_ne_closing, b2n_true, b2n_false, bgClk_run, bgClk_idle, bgClk_exited, bgClk_parked, bgClk_clearW, bgClk_afterCmd, bphClk, St.bg, onOk, onErr, selNext, afterSetErr, srW] <;> (try omega)
  | otxWaitComp _ i lg hi =>
    have l0 := le_tot clkW _ _ _ hi
    cases lg <;> (try simp only [St.setDone, St.setBg, ↓reduceIte, Bool.false_eq_true, Bool.and_false, Bool.and_true, Bool.false_and, Bool.true_and]) <;> (repeat' split) <;> simp_all [tot_set_eq _ _ _ _ _ hi, tot_ackWs_clk, clkW, CompErr.next_ne_closing, b2n_true, b2n_false, bgClk_run, bgClk_idle, bgClk_exited, bgClk_parked, bgClk_clearW, bgClk_afterCmd, bphClk, St.bg, onOk, onErr, selNext, afterSetErr, srW] <;> (try omega)
  | otxFail _ i lg hi =>
    have l0 := le_tot clkW _ _ _ hi
    cases lg <;> (try simp only [St.setDone, St.setBg, ↓reduceIte, Bool.false_eq_true, Bool.and_false, Bool.and_true, Bool.false_and, Bool.true_and]) <;> (repeat' split) <;> simp_all [tot_set_eq _ _ _ _ _ hi, tot_ackWs_clk, clkW, CompErr.next_ne_closing, b2n_true, b2n_false, bgClk_run, bgClk_idle, bgClk_exited, bgClk_parked, bgClk_clearW, bgClk_afterCmd, bphClk, St.bg, onOk, onErr, selNext, afterSetErr, srW] <;> (try omega)
  | otxRel _ i lg hi =>
    have l0 := le_tot clkW _ _ _ hi
    cases lg <;> (try simp only [St.setDone, St.setBg, ↓reduceIte, Bool.false_eq_true, Bool.and_false, Bool.and_true, Bool.false_and, Bool.true_and]) <;> (repeat' split) <;> simp_all [tot_set_eq _ _ _ _ _ hi, tot_ackWs_clk, clkW, CompErr.next_ne_closing, b2n_true, b2n_false, bgClk_run, bgClk_idle, bgClk_exited, bgClk_parked, bgClk_clearW, bgClk_afterCmd, bphClk, St.bg, onOk, onErr, selNext, afterSetErr, srW] <;> (try omega)
  | otxDone _ i lg hi =>
    have l0 := le_tot clkW _ _ _ hi
    cases lg <;> (try simp only [St.setDone, St.setBg, ↓reduceIte, Bool.false_eq_true, Bool.and_false, Bool.and_true, Bool.false_and, Bool.true_and]) <;> (repeat' split) <;> simp_all [tot_set_eq _ _ _ _ _ hi, tot_ackWs_clk, clkW, CompErr.next_ne_closing, b2n_true, b2n_false, bgClk_run, bgClk_idle, bgClk_exited, bgClk_parked, bgClk_clearW, bgClk_afterCmd, bphClk, St.bg, onOk, onErr, selNext, afterSetErr, srW] <;> (try omega)
  | lgWriteOk _ i hi =>
    have l0 := le_tot clkW _ _ _ hi
    (try simp only [St.setDone, St.setBg, ↓reduceIte, Bool.false_eq_true, Bool.and_false, Bool.and_true, Bool.false_and, Bool.true_and]) <;> (repeat' split) <;> simp_all [tot_set_eq _ _ _ _ _ hi, tot_ackWs_clk, clkW, CompErr.next_ne_closing, b2n_true, b2n_false, bgClk_run, bgClk_idle, bgClk_exited, bgClk_parked, bgClk_clearW, bgClk_afterCmd, bphClk, St.bg, onOk, onErr, selNext, afterSetErr, srW] <;> (try omega)
  | lgWriteFail _ i hi =>
    have l0 := le_tot clkW _ _ _ hi
    (try simp only [St.setDone, St.setBg, ↓reduceIte, Bool.false_eq_true, Bool.and_false, Bool.and_true, Bool.false_and, Bool.true_and]) <;> (repeat' split) <;> simp_all [tot_set_eq _ _ _ _ _ hi, tot_ackWs_clk, clkW, CompErr.next_ne_closing, b2n_true, b2n_false, bgClk_run, bgClk_idle, bgClk_exited, bgClk_parked, bgClk_clearW, bgClk_afterCmd, bphClk, St.bg, onOk, onErr, selNext, afterSetErr, srW] <;> (try omega)
  | cmLockTr _ i lg hi hl =>
    have l0 := le_tot clkW _ _ _ hi
    cases lg <;> (try simp only [St.setDone, St.setBg, ↓reduceIte, Bool.false_eq_true, Bool.and_false, Bool.and_true, Bool.false_and, Bool.true_and]) <;> (repeat' split) <;> simp_all [tot_set_eq _ _ _ _ _ hi, tot_ackWs_clk, clkW, CompErr.next_ne_closing, b2n_true, b2n_false, bgClk_run, bgClk_idle, bgClk_exited, bgClk_parked, bgClk_clearW, bgClk_afterCmd, bphClk, St.bg, onOk, onErr, selNext, afterSetErr, srW] <;> (try omega)
  | cmFlushOk _ i lg hi =>
    have l0 := le_tot clkW _ _ _ hi
    cases lg <;> (try simp only [St.setDone, St.setBg, ↓reduceIte, Bool.false_eq_true, Bool.and_false, Bool.and_true, Bool.false_and, Bool.true_and]) <;> (repeat' split) <;> simp_all [tot_set_eq _ _ _ _ _ hi, tot_ackWs_clk, clkW, CompErr.next_ne_closing, b2n_true, b2n_false, bgClk_run, bgClk_idle, bgClk_exited, bgClk_parked, bgClk_clearW, bgClk_afterCmd, bphClk, St.bg, onOk, onErr, selNext, afterSetErr, srW] <;> (try omega)
  | cmFlushEmpty _ i lg hi =>
    have l0 := le_tot clkW _ _ _ hi
    cases lg <;> (try simp only [St.setDone, St.setBg, ↓reduceIte, Bool.false_eq_true, Bool.and_false, Bool.and_true, Bool.false_and, Bool.true_and]) <;> (repeat' split) <;> simp_all [tot_set_eq _ _ _ _ _ hi, tot_ackWs_clk, clkW, CompErr.next_ne_closing, b2n_true, b2n_false, bgClk_run, bgClk_idle, bgClk_exited, bgClk_parked, bgClk_clearW, bgClk_afterCmd, bphClk, St.bg, onOk, onErr, selNext, afterSetErr, srW] <;> (try omega)
  | cmFlushFail _ i lg hi =>
    have l0 := le_tot clkW _ _ _ hi
    cases lg <;> (try simp only [St.setDone, St.setBg, ↓reduceIte, Bool.false_eq_true, Bool.and_false, Bool.and_true, Bool.false_and, Bool.true_and]) <;> (repeat' split) <;> simp_all [tot_set_eq _ _ _ _ _ hi, tot_ackWs_clk, clkW, CompErr.next_ne_closing, b2n_true, b2n_false, bgClk_run, bgClk_idle, bgClk_exited, bgClk_parked, bgClk_clearW, bgClk_afterCmd, bphClk, St.bg, onOk, onErr, selNext, afterSetErr, srW] <;> (try omega)
  | cmLockClk _ i lg hi hl =>
    have l0 := le_tot clkW _ _ _ hi
    cases lg <;> (try simp only [St.setDone, St.setBg, ↓reduceIte, Bool.false_eq_true, Bool.and_false, Bool.and_true, Bool.false_and, Bool.true_and]) <;> (repeat' split) <;> simp_all [tot_set_eq _ _ _ _ _ hi, tot_ackWs_clk, clkW, CompErr.next_ne_closing, b2n_true, b2n_false, bgClk_run, bgClk_idle, bgClk_exited, bgClk_parked, bgClk_clearW, bgClk_afterCmd, bphClk, St.bg, onOk, onErr, selNext, afterSetErr, srW] <;> (try omega)
  | cmTryOk _ i k lg hi =>
    have l0 := le_tot clkW _ _ _ hi
    cases lg <;> (try simp only [St.setDone, St.setBg, ↓reduceIte, Bool.false_eq_true, Bool.and_false, Bool.and_true, Bool.false_and, Bool.true_and]) <;> (repeat' split) <;> simp_all [tot_set_eq _ _ _ _ _ hi, tot_ackWs_clk, clkW, CompErr.next_ne_closing, b2n_true, b2n_false, bgClk_run, bgClk_idle, bgClk_exited, bgClk_parked, bgClk_clearW, bgClk_afterCmd, bphClk, St.bg, onOk, onErr, selNext, afterSetErr, srW] <;> (try omega)
  | cmTryFail _ i k lg hi =>
    have l0 := le_tot clkW _ _ _ hi
    cases lg <;> (try simp only [St.setDone, St.setBg, ↓reduceIte, Bool.false_eq_true, Bool.and_false, Bool.and_true, Bool.false_and, Bool.true_and]) <;> (repeat' split) <;> simp_all [tot_set_eq _ _ _ _ _ hi, tot_ackWs_clk, clkW, CompErr.next_ne_closing, b2n_true, b2n_false, bgClk_run, bgClk_idle, bgClk_exited, bgClk_parked, bgClk_clearW, bgClk_afterCmd, bphClk, St.bg, onOk, onErr, selNext, afterSetErr, srW] <;> (try omega)
  | cmSleepTimer _ i k lg hi =>
    have l0 := le_tot clkW _ _ _ hi
    cases lg <;> (try simp only [St.setDone, St.setBg, ↓reduceIte, Bool.false_eq_true, Bool.and_false, Bool.and_true, Bool.false_and, Bool.true_and]) <;> (repeat' split) <;> simp_all [tot_set_eq _ _ _ _ _ hi, tot_ackWs_clk, clkW, CompErr.next_ne_closing, b2n_true, b2n_false, bgClk_run, bgClk_idle, bgClk_exited, bgClk_parked, bgClk_clearW, bgClk_afterCmd, bphClk, St.bg, onOk, onErr, selNext, afterSetErr, srW] <;> (try omega)
  | cmSleepClosed _ i k lg hi hc =>
    have l0 := le_tot clkW _ _ _ hi
    cases lg <;> (try simp only [St.setDone, St.setBg, ↓reduceIte, Bool.false_eq_true, Bool.and_false, Bool.and_true, Bool.false_and, Bool.true_and]) <;> (repeat' split) <;> simp_all [tot_set_eq _ _ _ _ _ hi, tot_ackWs_clk, clkW, CompErr.next_ne_closing, b2n_true, b2n_false, bgClk_run, bgClk_idle, bgClk_exited, bgClk_parked, bgClk_clearW, bgClk_afterCmd, bphClk, St.bg, onOk, onErr, selNext, afterSetErr, srW] <;> (try omega)
  | cmFail3 _ i lg hi =>
    have l0 := le_tot clkW _ _ _ hi
    cases lg <;> (try simp only [St.setDone, St.setBg, ↓reduceIte, Bool.false_eq_true, Bool.and_false, Bool.and_true, Bool.false_and, Bool.true_and]) <;> (repeat' split) <;> simp_all [tot_set_eq _ _ _ _ _ hi, tot_ackWs_clk, clkW, CompErr.next_ne_closing, b2n_true, b2n_false, bgClk_run, bgClk_idle, bgClk_exited, bgClk_parked, bgClk_clearW, bgClk_afterCmd, bphClk, St.bg, onOk, onErr, selNext, afterSetErr, srW] <;> (try omega)
  | cmAfterOk _ i lg hi =>
    have l0 := le_tot clkW _ _ _ hi
    cases lg <;> (try simp only [St.setDone, St.setBg, ↓reduceIte, Bool.false_eq_true, Bool.and_false, Bool.and_true, Bool.false_and, Bool.true_and]) <;> (repeat' split) <;> simp_all [tot_set_eq _ _ _ _ _ hi, tot_ackWs_clk, clkW, CompErr.next_ne_closing, b2n_true, b2n_false, bgClk_run, bgClk_idle, bgClk_exited, bgClk_parked, bgClk_clearW, bgClk_afterCmd, bphClk, St.bg, onOk, onErr, selNext, afterSetErr, srW] <;> (try omega)
  | cmNoWaitComp _ i lg hi =>
    have l0 := le_tot clkW _ _ _ hi
    cases lg <;> (try simp only [St.setDone, St.setBg, ↓reduceIte, Bool.false_eq_true, Bool.and_false, Bool.and_true, Bool.false_and, Bool.true_and]) <;> (repeat' split) <;> simp_all [tot_set_eq _ _ _ _ _ hi, tot_ackWs_clk, clkW, CompErr.next_ne_closing, b2n_true, b2n_false, bgClk_run, bgClk_idle, bgClk_exited, bgClk_parked, bgClk_clearW, bgClk_afterCmd, bphClk, St.bg, onOk, onErr, selNext, afterSetErr, srW] <;> (try omega)
  | cmWaitComp _ i lg hi =>
    have l0 := le_tot clkW _ _ _ hi
    cases lg <;> (try simp only [St.setDone, St.setBg, ↓reduceIte, Bool.false_eq_true, Bool.and_false, Bool.and_true, Bool.false_and, Bool.true_and]) <;> (repeat' split) <;> simp_all [tot_set_eq _ _ _ _ _ hi, tot_ackWs_clk, clkW, CompErr.next_ne_closing, b2n_true, b2n_false, bgClk_run, bgClk_idle, bgClk_exited, bgClk_parked, bgClk_clearW, bgClk_afterCmd, bphClk, St.bg, onOk, onErr, selNext, afterSetErr, srW] <;> (try omega)
  | cmDone _ i lg hi =>
    have l0 := le_tot clkW _ _ _ hi
    cases lg <;> (try simp only [St.setDone, St.setBg, ↓reduceIte, Bool.false_eq_true, Bool.and_false, Bool.and_true, Bool.false_and, Bool.true_and]) <;> (repeat' split) <;> simp_all [tot_set_eq _ _ _ _ _ hi, tot_ackWs_clk, clkW, CompErr.next_ne_closing, b2n_true, b2n_false, bgClk_run, bgClk_idle, bgClk_exited, bgClk_parked, bgClk_clearW, bgClk_afterCmd, bphClk, St.bg, onOk, onErr, selNext, afterSetErr, srW] <;> (try omega)
  | cmRet _ i ok lg hi =>
    have l0 := le_tot clkW _ _ _ hi
    cases ok <;> cases lg <;> (try simp only [St.setDone, St.setBg, ↓reduceIte, Bool.false_eq_true, Bool.and_false, Bool.and_true, Bool.false_and, Bool.true_and]) <;> (repeat' split) <;> simp_all [tot_set_eq _ _ _ _ _ hi, tot_ackWs_clk, clkW, CompErr.next_ne_closing, b2n_true, b2n_false, bgClk_run, bgClk_idle, bgClk_exited, bgClk_parked, bgClk_clearW, bgClk_afterCmd, bphClk, St.bg, onOk, onErr, selNext, afterSetErr, srW] <;> (try omega)
  | dcLockTr _ i lg hi hl =>
    have l0 := le_tot clkW _ _ _ hi
    cases lg <;> (try simp only [St.setDone, St.setBg, ↓reduceIte, Bool.false_eq_true, Bool.and_false, Bool.and_true, Bool.false_and, Bool.true_and]) <;> (repeat' split) <;> simp_all [tot_set_eq _ _ _ _ _ hi, tot_ackWs_clk, clkW, CompErr.next_ne_closing, b2n_true, b2n_false, bgClk_run, bgClk_idle, bgClk_exited, bgClk_parked, bgClk_clearW, bgClk_afterCmd, bphClk, St.bg, onOk, onErr, selNext, afterSetErr, srW] <;> (try omega)
  | dcBody _ i lg hi =>
    have l0 := le_tot clkW _ _ _ hi
    cases lg <;> (try simp only [St.setDone, St.setBg, ↓reduceIte, Bool.false_eq_true, Bool.and_false, Bool.and_true, Bool.false_and, Bool.true_and]) <;> (repeat' split) <;> simp_all [tot_set_eq _ _ _ _ _ hi, tot_ackWs_clk, clkW, CompErr.next_ne_closing, b2n_true, b2n_false, bgClk_run, bgClk_idle, bgClk_exited, bgClk_parked, bgClk_clearW, bgClk_afterCmd, bphClk, St.bg, onOk, onErr, selNext, afterSetErr, srW] <;> (try omega)
  | crNoOverlap _ i hi =>
    have l0 := le_tot clkW _ _ _ hi
    (try simp only [St.setDone, St.setBg, ↓reduceIte, Bool.false_eq_true, Bool.and_false, Bool.and_true, Bool.false_and, Bool.true_and]) <;> (repeat' split) <;> simp_all [tot_set_eq _ _ _ _ _ hi, tot_ackWs_clk, clkW, CompErr.next_ne_closing, b2n_true, b2n_false, bgClk_run, bgClk_idle, bgClk_exited, bgClk_parked, bgClk_clearW, bgClk_afterCmd, bphClk, St.bg, onOk, onErr, selNext, afterSetErr, srW] <;> (try omega)
  | crOverlap _ i hi =>
    have l0 := le_tot clkW _ _ _ hi
    (try simp only [St.setDone, St.setBg, ↓reduceIte, Bool.false_eq_true, Bool.and_false, Bool.and_true, Bool.false_and, Bool.true_and]) <;> (repeat' split) <;> simp_all [tot_set_eq _ _ _ _ _ hi, tot_ackWs_clk, clkW, CompErr.next_ne_closing, b2n_true, b2n_false, bgClk_run, bgClk_idle, bgClk_exited, bgClk_parked, bgClk_clearW, bgClk_afterCmd, bphClk, St.bg, onOk, onErr, selNext, afterSetErr, srW] <;> (try omega)
  | crNewMemOk _ i hi =>
    have l0 := le_tot clkW _ _ _ hi
    (try simp only [St.setDone, St.setBg, ↓reduceIte, Bool.false_eq_true, Bool.and_false, Bool.and_true, Bool.false_and, Bool.true_and]) <;> (repeat' split) <;> simp_all [tot_set_eq _ _ _ _ _ hi, tot_ackWs_clk, clkW, CompErr.next_ne_closing, b2n_true, b2n_false, bgClk_run, bgClk_idle, bgClk_exited, bgClk_parked, bgClk_clearW, bgClk_afterCmd, bphClk, St.bg, onOk, onErr, selNext, afterSetErr, srW] <;> (try omega)
  | crNewMemFail _ i hi =>
    have l0 := le_tot clkW _ _ _ hi
    (try simp only [St.setDone, St.setBg, ↓reduceIte, Bool.false_eq_true, Bool.and_false, Bool.and_true, Bool.false_and, Bool.true_and]) <;> (repeat' split) <;> simp_all [tot_set_eq _ _ _ _ _ hi, tot_ackWs_clk, clkW, CompErr.next_ne_closing, b2n_true, b2n_false, bgClk_run, bgClk_idle, bgClk_exited, bgClk_parked, bgClk_clearW, bgClk_afterCmd, bphClk, St.bg, onOk, onErr, selNext, afterSetErr, srW] <;> (try omega)
  | crRelM _ i hi =>
    have l0 := le_tot clkW _ _ _ hi
    (try simp only [St.setDone, St.setBg, ↓reduceIte, Bool.false_eq_true, Bool.and_false, Bool.and_true, Bool.false_and, Bool.true_and]) <;> (repeat' split) <;> simp_all [tot_set_eq _ _ _ _ _ hi, tot_ackWs_clk, clkW, CompErr.next_ne_closing, b2n_true, b2n_false, bgClk_run, bgClk_idle, bgClk_exited, bgClk_parked, bgClk_clearW, bgClk_afterCmd, bphClk, St.bg, onOk, onErr, selNext, afterSetErr, srW] <;> (try omega)
  | crRelOk _ i hi =>
    have l0 := le_tot clkW _ _ _ hi
    (try simp only [St.setDone, St.setBg, ↓reduceIte, Bool.false_eq_true, Bool.and_false, Bool.and_true, Bool.false_and, Bool.true_and]) <;> (repeat' split) <;> simp_all [tot_set_eq _ _ _ _ _ hi, tot_ackWs_clk, clkW, CompErr.next_ne_closing, b2n_true, b2n_false, bgClk_run, bgClk_idle, bgClk_exited, bgClk_parked, bgClk_clearW, bgClk_afterCmd, bphClk, St.bg, onOk, onErr, selNext, afterSetErr, srW] <;> (try omega)
  | crRelFail _ i hi =>
    have l0 := le_tot clkW _ _ _ hi
    (try simp only [St.setDone, St.setBg, ↓reduceIte, Bool.false_eq_true, Bool.and_false, Bool.and_true, Bool.false_and, Bool.true_and]) <;> (repeat' split) <;> simp_all [tot_set_eq _ _ _ _ _ hi, tot_ackWs_clk, clkW, CompErr.next_ne_closing, b2n_true, b2n_false, bgClk_run, bgClk_idle, bgClk_exited, bgClk_parked, bgClk_clearW, bgClk_afterCmd, bphClk, St.bg, onOk, onErr, selNext, afterSetErr, srW] <;> (try omega)
  | srSend _ i hi he =>
    have l0 := le_tot clkW _ _ _ hi
    (try simp only [St.setDone, St.setBg, ↓reduceIte, Bool.false_eq_true, Bool.and_false, Bool.and_true, Bool.false_and, Bool.true_and]) <;> (repeat' split) <;> simp_all [tot_set_eq _ _ _ _ _ hi, tot_ackWs_clk, clkW, CompErr.next_ne_closing, b2n_true, b2n_false, bgClk_run, bgClk_idle, bgClk_exited, bgClk_parked, bgClk_clearW, bgClk_afterCmd, bphClk, St.bg, onOk, onErr, selNext, afterSetErr, srW] <;> (try omega)
  | srPerErr _ i hi he =>
    have l0 := le_tot clkW _ _ _ hi
    (try simp only [St.setDone, St.setBg, ↓reduceIte, Bool.false_eq_true, Bool.and_false, Bool.and_true, Bool.false_and, Bool.true_and]) <;> (repeat' split) <;> simp_all [tot_set_eq _ _ _ _ _ hi, tot_ackWs_clk, clkW, CompErr.next_ne_closing, b2n_true, b2n_false, bgClk_run, bgClk_idle, bgClk_exited, bgClk_parked, bgClk_clearW, bgClk_afterCmd, bphClk, St.bg, onOk, onErr, selNext, afterSetErr, srW] <;> (try omega)
  | srClosed _ i hi hc =>
    have l0 := le_tot clkW _ _ _ hi
    (try simp only [St.setDone, St.setBg, ↓reduceIte, Bool.false_eq_true, Bool.and_false, Bool.and_true, Bool.false_and, Bool.true_and]) <;> (repeat' split) <;> simp_all [tot_set_eq _ _ _ _ _ hi, tot_ackWs_clk, clkW, CompErr.next_ne_closing, b2n_true, b2n_false, bgClk_run, bgClk_idle, bgClk_exited, bgClk_parked, bgClk_clearW, bgClk_afterCmd, bphClk, St.bg, onOk, onErr, selNext, afterSetErr, srW] <;> (try omega)
  | clCheckTr _ i hi =>
    have l0 := le_tot clkW _ _ _ hi
    (try simp only [St.setDone, St.setBg, ↓reduceIte, Bool.false_eq_true, Bool.and_false, Bool.and_true, Bool.false_and, Bool.true_and]) <;> (repeat' split) <;> simp_all [tot_set_eq _ _ _ _ _ hi, tot_ackWs_clk, clkW, CompErr.next_ne_closing, b2n_true, b2n_false, bgClk_run, bgClk_idle, bgClk_exited, bgClk_parked, bgClk_clearW, bgClk_afterCmd, bphClk, St.bg, onOk, onErr, selNext, afterSetErr, srW] <;> (try omega)
  | clLockTr _ i hi hl =>
    have l0 := le_tot clkW _ _ _ hi
    (try simp only [St.setDone, St.setBg, ↓reduceIte, Bool.false_eq_true, Bool.and_false, Bool.and_true, Bool.false_and, Bool.true_and]) <;> (repeat' split) <;> simp_all [tot_set_eq _ _ _ _ _ hi, tot_ackWs_clk, clkW, CompErr.next_ne_closing, b2n_true, b2n_false, bgClk_run, bgClk_idle, bgClk_exited, bgClk_parked, bgClk_clearW, bgClk_afterCmd, bphClk, St.bg, onOk, onErr, selNext, afterSetErr, srW] <;> (try omega)
  | clBody _ i hi =>
    have l0 := le_tot clkW _ _ _ hi
    (try simp only [St.setDone, St.setBg, ↓reduceIte, Bool.false_eq_true, Bool.and_false, Bool.and_true, Bool.false_and, Bool.true_and]) <;> (repeat' split) <;> simp_all [tot_set_eq _ _ _ _ _ hi, tot_ackWs_clk, clkW, CompErr.next_ne_closing, b2n_true, b2n_false, bgClk_run, bgClk_idle, bgClk_exited, bgClk_parked, bgClk_clearW, bgClk_afterCmd, bphClk, St.bg, onOk, onErr, selNext, afterSetErr, srW] <;> (try omega)
  | clAcq _ i hi ht =>
    have l0 := le_tot clkW _ _ _ hi
    (try simp only [St.setDone, St.setBg, ↓reduceIte, Bool.false_eq_true, Bool.and_false, Bool.and_true, Bool.false_and, Bool.true_and]) <;> (repeat' split) <;> simp_all [tot_set_eq _ _ _ _ _ hi, tot_ackWs_clk, clkW, CompErr.next_ne_closing, b2n_true, b2n_false, bgClk_run, bgClk_idle, bgClk_exited, bgClk_parked, bgClk_clearW, bgClk_afterCmd, bphClk, St.bg, onOk, onErr, selNext, afterSetErr, srW] <;> (try omega)
  | clAcqKept _ i hi he hk hs =>
    have l0 := le_tot clkW _ _ _ hi
    (try simp only [St.setDone, St.setBg, ↓reduceIte, Bool.false_eq_true, Bool.and_false, Bool.and_true, Bool.false_and, Bool.true_and]) <;> (repeat' split) <;> simp_all [tot_set_eq _ _ _ _ _ hi, tot_ackWs_clk, clkW, CompErr.next_ne_closing, b2n_true, b2n_false, bgClk_run, bgClk_idle, bgClk_exited, bgClk_parked, bgClk_clearW, bgClk_afterCmd, bphClk, St.bg, onOk, onErr, selNext, afterSetErr, srW] <;> (try omega)
  | clWait _ i hi hm ht =>
    have l0 := le_tot clkW _ _ _ hi
    (try simp only [St.setDone, St.setBg, ↓reduceIte, Bool.false_eq_true, Bool.and_false, Bool.and_true, Bool.false_and, Bool.true_and]) <;> (repeat' split) <;> simp_all [tot_set_eq _ _ _ _ _ hi, tot_ackWs_clk, clkW, CompErr.next_ne_closing, b2n_true, b2n_false, bgClk_run, bgClk_idle, bgClk_exited, bgClk_parked, bgClk_clearW, bgClk_afterCmd, bphClk, St.bg, onOk, onErr, selNext, afterSetErr, srW] <;> (try omega)
  | ehAcquire _ he ht =>
    (try simp only [St.setDone, St.setBg, ↓reduceIte, Bool.false_eq_true, Bool.and_false, Bool.and_true, Bool.false_and, Bool.true_and]) <;> (repeat' split) <;> simp_all [tot_ackWs_clk, clkW, CompErr.next_ne_closing, b2n_true, b2n_false, bgClk_run, bgClk_idle, bgClk_exited, bgClk_parked, bgClk_clearW, bgClk_afterCmd, bphClk, St.bg, onOk, onErr, selNext, afterSetErr, srW] <;> (try omega)
  | ehClose _ he hc =>
    (try simp only [St.setDone, St.setBg, ↓reduceIte, Bool.false_eq_true, Bool.and_false, Bool.and_true, Bool.false_and, Bool.true_and]) <;> (repeat' split) <;> simp_all [tot_ackWs_clk, clkW, CompErr.next_ne_closing, b2n_true, b2n_false, bgClk_run, bgClk_idle, bgClk_exited, bgClk_parked, bgClk_clearW, bgClk_afterCmd, bphClk, St.bg, onOk, onErr, selNext, afterSetErr, srW, CompErr.onClose] <;> (try omega)
  | ehTake _ he ht =>
    (try simp only [St.setDone, St.setBg, ↓reduceIte, Bool.false_eq_true, Bool.and_false, Bool.and_true, Bool.false_and, Bool.true_and]) <;> (repeat' split) <;> simp_all [tot_ackWs_clk, clkW, CompErr.next_ne_closing, b2n_true, b2n_false, bgClk_run, bgClk_idle, bgClk_exited, bgClk_parked, bgClk_clearW, bgClk_afterCmd, bphClk, St.bg, onOk, onErr, selNext, afterSetErr, srW] <;> (try omega)
  | bgExitIdle _ b hb hc =>
    cases b <;> (try simp only [St.setDone, St.setBg, ↓reduceIte, Bool.false_eq_true, Bool.and_false, Bool.and_true, Bool.false_and, Bool.true_and]) <;> (repeat' split) <;> simp_all [tot_ackWs_clk, clkW, CompErr.next_ne_closing, b2n_true, b2n_false, bgClk_run, bgClk_idle, bgClk_exited, bgClk_parked, bgClk_clearW, bgClk_afterCmd, bphClk, St.bg, onOk, onErr, selNext, afterSetErr, srW] <;> (try omega)
  | bgExitParked _ hb hc =>
    (try simp only [St.setDone, St.setBg, ↓reduceIte, Bool.false_eq_true, Bool.and_false, Bool.and_true, Bool.false_and, Bool.true_and]) <;> (repeat' split) <;> simp_all [tot_ackWs_clk, clkW, CompErr.next_ne_closing, b2n_true, b2n_false, bgClk_run, bgClk_idle, bgClk_exited, bgClk_parked, bgClk_clearW, bgClk_afterCmd, bphClk, St.bg, onOk, onErr, selNext, afterSetErr, srW] <;> (try omega)
  | bgWorkCorrupt _ b w hb hk =>
    cases b <;> (try simp only [St.setDone, St.setBg, ↓reduceIte, Bool.false_eq_true, Bool.and_false, Bool.and_true, Bool.false_and, Bool.true_and]) <;> (repeat' split) <;> simp_all [tot_ackWs_clk, clkW, CompErr.next_ne_closing, b2n_true, b2n_false, bgClk_run, bgClk_idle, bgClk_exited, bgClk_parked, bgClk_clearW, bgClk_afterCmd, bphClk, St.bg, onOk, onErr, selNext, afterSetErr, srW] <;> (try omega)
  | bgCommitCorrupt _ b w hb hk =>
    cases b <;> (try simp only [St.setDone, St.setBg, ↓reduceIte, Bool.false_eq_true, Bool.and_false, Bool.and_true, Bool.false_and, Bool.true_and]) <;> (repeat' split) <;> simp_all [tot_ackWs_clk, clkW, CompErr.next_ne_closing, b2n_true, b2n_false, bgClk_run, bgClk_idle, bgClk_exited, bgClk_parked, bgClk_clearW, bgClk_afterCmd, bphClk, St.bg, onOk, onErr, selNext, afterSetErr, srW] <;> (try omega)
  | bgSetErrCorrupt _ b w c hb he =>
    cases b <;> cases c <;> (try simp only [St.setDone, St.setBg, ↓reduceIte, Bool.false_eq_true, Bool.and_false, Bool.and_true, Bool.false_and, Bool.true_and]) <;> (repeat' split) <;> simp_all [tot_ackWs_clk, clkW, CompErr.next_ne_closing, b2n_true, b2n_false, bgClk_run, bgClk_idle, bgClk_exited, bgClk_parked, bgClk_clearW, bgClk_afterCmd, bphClk, St.bg, onOk, onErr, selNext, afterSetErr, srW] <;> (try omega)
  | bgWorkOk _ b w hb =>
    cases b <;> (try simp only [St.setDone, St.setBg, ↓reduceIte, Bool.false_eq_true, Bool.and_false, Bool.and_true, Bool.false_and, Bool.true_and]) <;> (repeat' split) <;> simp_all [tot_ackWs_clk, clkW, CompErr.next_ne_closing, b2n_true, b2n_false, bgClk_run, bgClk_idle, bgClk_exited, bgClk_parked, bgClk_clearW, bgClk_afterCmd, bphClk, St.bg, onOk, onErr, selNext, afterSetErr, srW] <;> (try omega)
  | bgWorkFail _ b w hb =>
    cases b <;> (try simp only [St.setDone, St.setBg, ↓reduceIte, Bool.false_eq_true, Bool.and_false, Bool.and_true, Bool.false_and, Bool.true_and]) <;> (repeat' split) <;> simp_all [tot_ackWs_clk, clkW, CompErr.next_ne_closing, b2n_true, b2n_false, bgClk_run, bgClk_idle, bgClk_exited, bgClk_parked, bgClk_clearW, bgClk_afterCmd, bphClk, St.bg, onOk, onErr, selNext, afterSetErr, srW] <;> (try omega)
  | bgCommitOk _ b w hb =>
    cases b <;> (try simp only [St.setDone, St.setBg, ↓reduceIte, Bool.false_eq_true, Bool.and_false, Bool.and_true, Bool.false_and, Bool.true_and]) <;> (repeat' split) <;> simp_all [tot_ackWs_clk, clkW, CompErr.next_ne_closing, b2n_true, b2n_false, bgClk_run, bgClk_idle, bgClk_exited, bgClk_parked, bgClk_clearW, bgClk_afterCmd, bphClk, St.bg, onOk, onErr, selNext, afterSetErr, srW] <;> (try omega)
  | bgCommitFail _ b w hb =>
    cases b <;> (try simp only [St.setDone, St.setBg, ↓reduceIte, Bool.false_eq_true, Bool.and_false, Bool.and_true, Bool.false_and, Bool.true_and]) <;> (repeat' split) <;> simp_all [tot_ackWs_clk, clkW, CompErr.next_ne_closing, b2n_true, b2n_false, bgClk_run, bgClk_idle, bgClk_exited, bgClk_parked, bgClk_clearW, bgClk_afterCmd, bphClk, St.bg, onOk, onErr, selNext, afterSetErr, srW] <;> (try omega)
  | bgSetErr _ b w ok c hb he =>
    cases b <;> cases ok <;> cases c <;> (try simp only [St.setDone, St.setBg, ↓reduceIte, Bool.false_eq_true, Bool.and_false, Bool.and_true, Bool.false_and, Bool.true_and]) <;> (repeat' split) <;> simp_all [tot_ackWs_clk, clkW, CompErr.next_ne_closing, b2n_true, b2n_false, bgClk_run, bgClk_idle, bgClk_exited, bgClk_parked, bgClk_clearW, bgClk_afterCmd, bphClk, St.bg, onOk, onErr, selNext, afterSetErr, srW] <;> (try omega)
  | bgSetErrPer _ b w c hb he =>
    cases b <;> cases c <;> (try simp only [St.setDone, St.setBg, ↓reduceIte, Bool.false_eq_true, Bool.and_false, Bool.and_true, Bool.false_and, Bool.true_and]) <;> (repeat' split) <;> simp_all [tot_ackWs_clk, clkW, CompErr.next_ne_closing, b2n_true, b2n_false, bgClk_run, bgClk_idle, bgClk_exited, bgClk_parked, bgClk_clearW, bgClk_afterCmd, bphClk, St.bg, onOk, onErr, selNext, afterSetErr, srW] <;> (try omega)
  | bgBackoff _ b w c hb =>
    cases b <;> cases c <;> (try simp only [St.setDone, St.setBg, ↓reduceIte, Bool.false_eq_true, Bool.and_false, Bool.and_true, Bool.false_and, Bool.true_and]) <;> (repeat' split) <;> simp_all [tot_ackWs_clk, clkW, CompErr.next_ne_closing, b2n_true, b2n_false, bgClk_run, bgClk_idle, bgClk_exited, bgClk_parked, bgClk_clearW, bgClk_afterCmd, bphClk, St.bg, onOk, onErr, selNext, afterSetErr, srW] <;> (try omega)
  | bgLockClk _ b w hb hl =>
    cases b <;> (try simp only [St.setDone, St.setBg, ↓reduceIte, Bool.false_eq_true, Bool.and_false, Bool.and_true, Bool.false_and, Bool.true_and]) <;> (repeat' split) <;> simp_all [tot_ackWs_clk, clkW, CompErr.next_ne_closing, b2n_true, b2n_false, bgClk_run, bgClk_idle, bgClk_exited, bgClk_parked, bgClk_clearW, bgClk_afterCmd, bphClk, St.bg, onOk, onErr, selNext, afterSetErr, srW] <;> (try omega)
  | bgAck _ b w hb =>
    cases b <;> (try simp only [St.setDone, St.setBg, ↓reduceIte, Bool.false_eq_true, Bool.and_false, Bool.and_true, Bool.false_and, Bool.true_and]) <;> (repeat' split) <;> simp_all [tot_ackWs_clk, clkW, CompErr.next_ne_closing, b2n_true, b2n_false, bgClk_run, bgClk_idle, bgClk_exited, bgClk_parked, bgClk_clearW, bgClk_afterCmd, bphClk, St.bg, onOk, onErr, selNext, afterSetErr, srW] <;> (try omega)
  | bgExit _ b w ph hb hx =>
    cases b <;> cases ph <;> (try simp only [St.setDone, St.setBg, ↓reduceIte, Bool.false_eq_true, Bool.and_false, Bool.and_true, Bool.false_and, Bool.true_and]) <;> (repeat' split) <;> simp_all [tot_ackWs_clk, clkW, CompErr.next_ne_closing, b2n_true, b2n_false, bgClk_run, bgClk_idle, bgClk_exited, bgClk_parked, bgClk_clearW, bgClk_afterCmd, bphClk, St.bg, onOk, onErr, selNext, afterSetErr, srW] <;> (try omega)

end GoLevel.Locks
