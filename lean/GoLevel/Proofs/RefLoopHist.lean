import GoLevel.Proofs.RefLoopInv
/-! The removal history of the reference loop: every table is removed at most once, and exactly the accounted
tables whose counter is zero have been removed (C07, second half of `eventual_delete`). -/
namespace GoLevel.RefLoop

/-- Table `f` has been accounted for: it belongs to a version whose tables were added to the counters (the
versions already passed by `next`, and the base version). -/
def Acc (S : State) (G : Env) (f : Nat) : Prop := ∃ k, (k < S.next ∨ k = min G.nd S.next) ∧ f ∈ G.F k

/-- The removal history `R` lists exactly the accounted tables whose counter is zero, once each. -/
def Hist (S : State) (G : Env) (R : List Nat) : Prop :=
  ∀ f, ((Acc S G f ∧ S.fileRef.count f = 0) → R.count f = 1) ∧
       (¬ (Acc S G f ∧ S.fileRef.count f = 0) → R.count f = 0)

theorem count_pos_acc {S : State} {G : Env} (hI : Inv S G) {f : Nat} (h : 0 < S.fileRef.count f) : Acc S G f := by
  rw [hI.cnt f] at h
  by_cases hb : f ∈ G.F (min G.nd S.next)
  · exact ⟨_, Or.inr rfl, hb⟩
  · simp only [hb, if_false, Nat.zero_add] at h
    obtain ⟨k, hk⟩ := List.exists_mem_of_length_pos h
    obtain ⟨hk1, hk2⟩ := List.mem_filter.mp hk
    exact ⟨k, Or.inl ((hI.rfd.2 k).mp hk1).1, by simpa using hk2⟩

theorem count_zero_iff {S : State} {G : Env} (hI : Inv S G) (f : Nat) :
    S.fileRef.count f = 0 ↔ f ∉ G.F (min G.nd S.next) ∧ ∀ k ∈ S.referenced, f ∉ G.F k := by
  rw [hI.cnt f]
  constructor
  · intro h
    have h1 : f ∉ G.F (min G.nd S.next) := by intro hm; simp [hm] at h
    refine ⟨h1, fun k hk hf => ?_⟩
    have : k ∈ S.referenced.filter (fun k => decide (f ∈ G.F k)) := List.mem_filter.mpr ⟨hk, by simpa using hf⟩
    have := List.length_pos_of_mem this
    omega
  · rintro ⟨h1, h2⟩
    have : S.referenced.filter (fun k => decide (f ∈ G.F k)) = [] := by
      rw [List.filter_eq_nil_iff]; intro k hk; simpa using h2 k hk
    simp [h1, this]

/-- An accounted table whose counter is zero belongs to no version from the base on: it is gone for good. -/
theorem gone_for_good {S : State} {G : Env} (hI : Inv S G) {f : Nat} (ha : Acc S G f)
    (h0 : S.fileRef.count f = 0) : ∀ l, min G.nd S.next ≤ l → f ∉ G.F l := by
  obtain ⟨hb, href⟩ := (count_zero_iff hI f).mp h0
  obtain ⟨k, hk, hfk⟩ := ha
  intro l hl hfl
  have hkb : k < min G.nd S.next := by
    rcases hk with hk | hk
    · rcases Nat.lt_or_ge k (min G.nd S.next) with h | h
      · exact h
      · exfalso
        by_cases hkr : k ∈ G.rel
        · have := hI.wf.rel_lt k hkr; omega
        · exact href k ((hI.rfd.2 k).mpr ⟨hk, hkr⟩) hfk
    · subst hk; exact absurd hfk hb
  by_cases hlb : l = min G.nd S.next
  · subst hlb; exact hb hfl
  · exact hI.wf.mono f k (min G.nd S.next) l hkb (by omega) hfk hb hfl

/-- One primitive transition of the loop (the environment's versions unchanged; `next` moves only while the
environment stands still): the history stays exact. -/
theorem hist_step {S S' : State} {G G' : Env} {R rm : List Nat} (hI : Inv S G) (hI' : Inv S' G')
    (hH : Hist S G R) (hF : ∀ k, G'.F k = G.F k)
    (hnx : S.next ≤ S'.next) (hnx' : S'.next ≤ S.next + 1) (hnd : G.nd ≤ G'.nd)
    (hrel : ∀ k, k ∈ G.rel → k ∈ G'.rel)
    (hmove : S.next < S'.next → G'.rel = G.rel ∧ G'.nd = G.nd)
    (hnodup : rm.Nodup) (hrm : ∀ f, f ∈ rm ↔ 1 ≤ S.fileRef.count f ∧ S'.fileRef.count f = 0) :
    Hist S' G' (R ++ rm) := by
  have hb : min G.nd S.next ≤ min G'.nd S'.next := by omega
  have hacc : ∀ f, Acc S G f → Acc S' G' f := by
    rintro f ⟨k, hk, hfk⟩
    refine ⟨k, ?_, by rw [hF]; exact hfk⟩
    rcases hk with hk | hk
    · exact Or.inl (by omega)
    · by_cases h : k < S'.next
      · exact Or.inl h
      · right; omega
  intro f
  rw [List.count_append, count_nodup hnodup]
  by_cases hfr : f ∈ rm
  · obtain ⟨h1, h2⟩ := (hrm f).mp hfr
    have hacc' := hacc f (count_pos_acc hI (by omega))
    have hR : R.count f = 0 := (hH f).2 (fun h => by omega)
    simp only [hfr, if_true, hR]
    exact ⟨fun _ => by simp, fun h => absurd ⟨hacc', h2⟩ h⟩
  · simp only [hfr, if_false, Nat.add_zero]
    by_cases hold : Acc S G f ∧ S.fileRef.count f = 0
    · -- already removed: stays removed
      have hg := gone_for_good hI hold.1 hold.2
      have h0' : S'.fileRef.count f = 0 := by
        rw [count_zero_iff hI']
        refine ⟨by rw [hF]; exact hg _ hb, fun k hk => ?_⟩
        rw [hF]
        have hk' := (hI'.rfd.2 k).mp hk
        by_cases hko : k ∈ S.referenced
        · exact ((count_zero_iff hI f).mp hold.2).2 k hko
        · have hkr : k ∉ G.rel := fun h => hk'.2 (hrel k h)
          have : ¬ k < S.next := fun h => hko ((hI.rfd.2 k).mpr ⟨h, hkr⟩)
          exact hg k (by omega)
      exact ⟨fun _ => (hH f).1 hold, fun h => absurd ⟨hacc f hold.1, h0'⟩ h⟩
    · have hnew : ¬ (Acc S' G' f ∧ S'.fileRef.count f = 0) := by
        rintro ⟨ha', h0'⟩
        by_cases hc : S.fileRef.count f = 0
        · -- not accounted before, accounted now with counter zero: impossible
          have hna : ¬ Acc S G f := fun h => hold ⟨h, hc⟩
          obtain ⟨k, hk, hfk⟩ := ha'
          rw [hF] at hfk
          obtain ⟨hb', href'⟩ := (count_zero_iff hI' f).mp h0'
          rcases hk with hk | hk
          · by_cases hko : k < S.next
            · exact hna ⟨k, Or.inl hko, hfk⟩
            · have hkeq : k = S.next := by omega
              obtain ⟨hr, hd⟩ := hmove (by omega)
              by_cases hkr : k ∈ G'.rel
              · -- released and passed by the release loop: it was the base
                rw [hr] at hkr
                have hknd : k < G.nd := hI.wf.rel_lt k hkr
                exact hna ⟨k, Or.inr (by omega), hfk⟩
              · exact href' k ((hI'.rfd.2 k).mpr ⟨hk, hkr⟩) (by rw [hF]; exact hfk)
          · subst hk; exact hb' (by rw [hF]; exact hfk)
        · exact hfr ((hrm f).mpr ⟨by omega, h0'⟩)
      exact ⟨fun h => absurd h hnew, fun _ => (hH f).2 hold⟩


theorem hist_congr {S S' : State} {G G' : Env} {R : List Nat} (hacc : ∀ f, Acc S' G' f ↔ Acc S G f)
    (hfr : S'.fileRef = S.fileRef) (hH : Hist S G R) : Hist S' G' R := by
  intro f
  rw [hacc f, hfr]
  exact hH f

/-- A new version is announced: nothing is accounted or removed yet. -/
theorem hist_ref {S S' : State} {G : Env} {R fs : List Nat} (hI : Inv S G) (hfirst : G.n = 0 → fs = [])
    (hnx : S'.next = S.next) (hfr : S'.fileRef = S.fileRef) (hH : Hist S G R) :
    Hist S' { G with vs := G.vs ++ [fs] } R := by
  refine hist_congr (fun f => ?_) hfr hH
  have hnd' : ({ G with vs := G.vs ++ [fs] } : Env).nd = G.nd := rfl
  have hF : ∀ k, (k < S.next ∨ k = min G.nd S.next) →
      ({ G with vs := G.vs ++ [fs] } : Env).F k = G.F k := by
    intro k hk
    by_cases h0 : G.n = 0
    · have hnx0 := hI.nx
      have hk0 : k = 0 := by rcases hk with h | h <;> omega
      subst hk0
      have h1 := @F_append_eq G fs
      rw [h0] at h1
      rw [h1, hfirst h0, hI.wf.first]
    · apply F_append_lt
      have := hI.nx
      rcases hI.wf.nd_lt with h1 | h1 <;> rcases hk with h | h <;> omega
  unfold Acc
  rw [hnx, hnd']
  constructor
  · rintro ⟨k, hk, hfk⟩; exact ⟨k, hk, by rw [← hF k hk]; exact hfk⟩
  · rintro ⟨k, hk, hfk⟩; exact ⟨k, hk, by rw [hF k hk]; exact hfk⟩

theorem hist_init : Hist State.init Env.init [] := by
  intro f
  refine ⟨fun h => ?_, fun _ => rfl⟩
  obtain ⟨⟨k, _, hfk⟩, _⟩ := h
  simp [Env.F, Env.init] at hfk

end GoLevel.RefLoop
