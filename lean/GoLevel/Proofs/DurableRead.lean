import GoLevel.Proofs.DurableFiles
/-!
What `DiskOK` gives to a reader: `recoverR` succeeds, returns every group that must survive, only issued
groups, all visible at the recovered sequence number, with pairwise disjoint sequence ranges.
-/
namespace GoLevel.Dur

/-! ## ascending group lists -/

theorem AscFrom.mono {s s' : Nat} {l : List Grp} (h : AscFrom s l) (hs : s' ≤ s) : AscFrom s' l := by
  cases l with
  | nil => trivial
  | cons g gs => exact ⟨Nat.le_trans hs h.1, h.2⟩

theorem Grp.seq_lt_fin {g : Grp} (h : g.recs ≠ []) : g.seq < g.fin := by
  unfold Grp.fin Grp.n
  have : 0 < g.recs.length := List.length_pos_iff.mpr h
  omega

theorem AscFrom.le_of_mem {s : Nat} {l : List Grp} (h : AscFrom s l) {g : Grp} (hg : g ∈ l) : s ≤ g.seq := by
  induction l generalizing s with
  | nil => simp at hg
  | cons x xs ih =>
    rcases List.mem_cons.1 hg with rfl | hg'
    · exact h.1
    · have := ih h.2.2 hg'
      have := Grp.seq_lt_fin h.2.1
      have := h.1
      omega

theorem AscFrom.recs_ne {s : Nat} {l : List Grp} (h : AscFrom s l) {g : Grp} (hg : g ∈ l) : g.recs ≠ [] := by
  induction l generalizing s with
  | nil => simp at hg
  | cons x xs ih =>
    rcases List.mem_cons.1 hg with rfl | hg'
    · exact h.2.1
    · exact ih h.2.2 hg'

theorem AscFrom.append {s : Nat} {l l' : List Grp} (h : AscFrom s l) (h' : AscFrom s l')
    (hb : ∀ g ∈ l, ∀ g' ∈ l', g.fin ≤ g'.seq) : AscFrom s (l ++ l') := by
  induction l generalizing s with
  | nil => exact h'
  | cons x xs ih =>
    refine ⟨h.1, h.2.1, ?_⟩
    apply ih h.2.2
    · cases l' with
      | nil => trivial
      | cons y ys => exact ⟨hb x List.mem_cons_self y List.mem_cons_self, h'.2⟩
    · exact fun g hg g' hg' => hb g (List.mem_cons_of_mem _ hg) g' hg'

theorem AscFrom.snoc {s : Nat} {l : List Grp} (h : AscFrom s l) {g : Grp} (hs : s ≤ g.seq) (hr : g.recs ≠ [])
    (hb : ∀ x ∈ l, x.fin ≤ g.seq) : AscFrom s (l ++ [g]) :=
  h.append ⟨hs, hr, trivial⟩ (fun x hx g' hg' => by
    simp only [List.mem_singleton] at hg'; subst hg'; exact hb x hx)

theorem AscFrom.of_append_left {s : Nat} {l l' : List Grp} (h : AscFrom s (l ++ l')) : AscFrom s l := by
  induction l generalizing s with
  | nil => trivial
  | cons x xs ih => exact ⟨h.1, h.2.1, ih h.2.2⟩

theorem AscFrom.take {s : Nat} {l : List Grp} (h : AscFrom s l) (k : Nat) : AscFrom s (l.take k) := by
  have : l = l.take k ++ l.drop k := (List.take_append_drop k l).symm
  rw [this] at h
  exact h.of_append_left

/-- earlier groups end before later ones start -/
theorem AscFrom.pairwise {s : Nat} {l : List Grp} (h : AscFrom s l) : l.Pairwise (fun g h => g.fin ≤ h.seq) := by
  induction l generalizing s with
  | nil => exact List.Pairwise.nil
  | cons x xs ih =>
    refine List.Pairwise.cons (fun y hy => h.2.2.le_of_mem hy) (ih h.2.2)

theorem AscFrom.disj {s : Nat} {l : List Grp} (h : AscFrom s l) {a b : Grp} (ha : a ∈ l) (hb : b ∈ l) : Disj a b := by
  have hp := h.pairwise
  induction l generalizing s with
  | nil => simp at ha
  | cons x xs ih =>
    rw [List.pairwise_cons] at hp
    rcases List.mem_cons.1 ha with rfl | ha' <;> rcases List.mem_cons.1 hb with rfl | hb'
    · exact Or.inl rfl
    · exact Or.inr (Or.inl (hp.1 _ hb'))
    · exact Or.inr (Or.inr (hp.1 _ ha'))
    · exact ih h.2.2 ha' hb' hp.2

/-! ## the replay loop accepts an ascending stream -/

theorem replayJ_asc {s : Nat} {l : List Grp} (h : AscFrom s l) :
    (replayJ s l).1 = l ∧ s ≤ (replayJ s l).2 ∧ ∀ g ∈ l, g.fin ≤ (replayJ s l).2 := by
  induction l generalizing s with
  | nil => simp [replayJ]
  | cons x xs ih =>
    obtain ⟨h1, h2, h3⟩ := h
    have hx := Grp.seq_lt_fin h2
    obtain ⟨i1, i2, i3⟩ := ih h3
    simp only [replayJ, if_neg (Nat.not_lt.2 h1)]
    refine ⟨by rw [i1], by omega, ?_⟩
    intro g hg
    rcases List.mem_cons.1 hg with rfl | hg'
    · exact i2
    · exact i3 g hg'

/-- on an ascending stream the loop drops exactly the records that start below the expected sequence number
    (they form a prefix) and accepts the rest -/
theorem replayJ_filter {s : Nat} {l : List Grp} (h : AscFrom 0 l) :
    (replayJ s l).1 = l.filter (fun g => decide (s ≤ g.seq)) ∧ s ≤ (replayJ s l).2 ∧
    ∀ g ∈ l, s ≤ g.seq → g.fin ≤ (replayJ s l).2 := by
  induction l generalizing s with
  | nil => simp [replayJ]
  | cons x xs ih =>
    obtain ⟨_, h2, h3⟩ := h
    have hx := Grp.seq_lt_fin h2
    by_cases hlt : x.seq < s
    · obtain ⟨i1, i2, i3⟩ := ih (s := s) (h3.mono (Nat.zero_le _))
      simp only [replayJ, if_pos hlt]
      refine ⟨?_, i2, ?_⟩
      · rw [i1, List.filter_cons_of_neg (by simpa using hlt)]
      · intro g hg hs
        rcases List.mem_cons.1 hg with rfl | hg'
        · omega
        · exact i3 g hg' hs
    · have hle : s ≤ x.seq := Nat.not_lt.1 hlt
      obtain ⟨i1, i2, i3⟩ := replayJ_asc h3
      simp only [replayJ, if_neg hlt]
      refine ⟨?_, by omega, ?_⟩
      · rw [i1, List.filter_cons_of_pos (by simpa using hle)]
        congr 1
        symm
        rw [List.filter_eq_self]
        intro g hg
        have := h3.le_of_mem hg
        simp only [decide_eq_true_eq]
        omega
      · intro g hg _
        rcases List.mem_cons.1 hg with rfl | hg'
        · exact i2
        · exact i3 g hg'

/-! ## `sortNums` on a sorted list -/

theorem insertNum_of_le {n : Nat} {l : List Nat} (h : ∀ x ∈ l, n ≤ x) : insertNum n l = n :: l := by
  cases l with
  | nil => rfl
  | cons x xs => simp [insertNum, h x List.mem_cons_self]

theorem sortNums_sorted {l : List Nat} (h : l.Pairwise (· < ·)) : sortNums l = l := by
  induction l with
  | nil => rfl
  | cons x xs ih =>
    rw [List.pairwise_cons] at h
    have : sortNums (x :: xs) = insertNum x (sortNums xs) := rfl
    rw [this, ih h.2]
    exact insertNum_of_le (fun y hy => Nat.le_of_lt (h.1 y hy))

/-! ## reading the journals -/

theorem journalsFrom_eq {d : Disk} (hs : d.journals.Pairwise (fun p q => p.1 < q.1)) (jn : Nat) :
    journalsFrom d jn = (relJournals d jn).map (·.1) := by
  unfold journalsFrom relJournals Files.nums
  have e : (d.journals.map (·.1)).filter (· ≥ jn) = (d.journals.filter (jn ≤ ·.1)).map (·.1) := by
    rw [List.filter_map]
    rfl
  rw [e]
  apply sortNums_sorted
  rw [List.pairwise_map]
  exact hs.filter _

theorem journalRecs_eq {d : Disk} (hs : d.journals.Pairwise (fun p q => p.1 < q.1)) (l : Files (LogFile Grp))
    (hl : ∀ p ∈ l, p ∈ d.journals) : journalRecs d (l.map (·.1)) = l.flatMap (·.2.all) := by
  induction l with
  | nil => rfl
  | cons p ps ih =>
    have hp : lookup d.journals p.1 = some p.2 :=
      lookup_of_mem (sorted_nodup hs) (by cases p; exact hl _ List.mem_cons_self)
    simp only [journalRecs, List.map_cons, List.flatMap_cons, hp, Option.map_some, Option.getD_some]
    congr 1
    exact ih (fun q hq => hl q (List.mem_cons_of_mem _ hq))

theorem mem_relJournals {d : Disk} {jn : Nat} {p : Nat × LogFile Grp} :
    p ∈ relJournals d jn ↔ p ∈ d.journals ∧ jn ≤ p.1 := by
  simp [relJournals]

theorem relJournals_mono {d : Disk} {jn jn' : Nat} (h : jn ≤ jn') {p : Nat × LogFile Grp}
    (hp : p ∈ relJournals d jn') : p ∈ relJournals d jn := by
  rw [mem_relJournals] at hp ⊢
  exact ⟨hp.1, Nat.le_trans h hp.2⟩

/-- the concatenation of sorted, pairwise ordered, individually ascending files is ascending -/
theorem stream_asc (sq : Nat) (l : Files (LogFile Grp)) (hs : l.Pairwise (fun p q => p.1 < q.1))
    (hasc : ∀ p ∈ l, AscFrom 0 p.2.all)
    (hord : ∀ p ∈ l, ∀ q ∈ l, p.1 < q.1 → ∀ g ∈ p.2.all, ∀ h ∈ q.2.all, g.fin ≤ h.seq)
    (hlow : ∀ p ∈ l, ∀ g ∈ p.2.all, sq ≤ g.seq) : AscFrom sq (l.flatMap (·.2.all)) := by
  induction l with
  | nil => trivial
  | cons p ps ih =>
    rw [List.pairwise_cons] at hs
    simp only [List.flatMap_cons]
    have hp : AscFrom sq p.2.all := by
      have := hasc p List.mem_cons_self
      cases hh : p.2.all with
      | nil => trivial
      | cons g gs =>
        rw [hh] at this
        exact ⟨hlow p List.mem_cons_self g (by rw [hh]; exact List.mem_cons_self), this.2⟩
    apply hp.append
    · exact ih hs.2 (fun q hq => hasc q (List.mem_cons_of_mem _ hq))
        (fun q hq r hr => hord q (List.mem_cons_of_mem _ hq) r (List.mem_cons_of_mem _ hr))
        (fun q hq => hlow q (List.mem_cons_of_mem _ hq))
    · intro g hg g' hg'
      obtain ⟨q, hq, hgq⟩ := List.mem_flatMap.1 hg'
      exact hord p List.mem_cons_self q (List.mem_cons_of_mem _ hq) (hs.1 q hq) g hg g' hgq

/-! ## reading the tables -/

theorem tableGroups_ok {d : Disk} (l : List Nat)
    (h : ∀ t ∈ l, Holds (lookup d.tables t) fun tf => tf.synced = true ∧ tf.bad = false) :
    tableGroups d l = .ok (l.flatMap (tableGrpsOf d)) := by
  induction l with
  | nil => rfl
  | cons t ts ih =>
    have ht := h t List.mem_cons_self
    rw [holds_iff] at ht
    obtain ⟨tf, e, _, hb⟩ := ht
    simp only [tableGroups, e, hb, Bool.false_eq_true, if_false,
      ih (fun x hx => h x (List.mem_cons_of_mem _ hx)), List.flatMap_cons, tableGrpsOf, Option.map_some,
      Option.getD_some]

/-! ## the reader's theorem -/

/-- what a successful `Open` has to deliver, relative to the groups that must survive and those issued -/
structure GoodOpen (must issued : List Grp) (r : RState) : Prop where
  has : ∀ g ∈ must, g ∈ r.grps
  only : ∀ g ∈ r.grps, g ∈ issued
  visible : ∀ g ∈ r.grps, g.fin ≤ r.seq + 1
  disj : ∀ g ∈ r.grps, ∀ h ∈ r.grps, Disj g h
  nonempty : ∀ g ∈ r.grps, g.recs ≠ []

theorem DiskOK.open_ok {cfg : Cfg} {d : Disk} {must issued : List Grp} (h : DiskOK cfg d must issued) :
    ∃ r, recoverR cfg d = .ok r ∧ GoodOpen must issued r := by
  obtain ⟨hs, _, _, hr⟩ := h
  rw [holds_iff] at hr
  obtain ⟨mf, hmf, hr⟩ := hr
  rw [holds_iff] at hr
  obtain ⟨v0, hv0, hrange, hasc, hord⟩ := hr
  have hk := hrange mf.unsynced.length (Nat.le_refl _)
  rw [holds_iff] at hk
  obtain ⟨v, hv, hok, hmono⟩ := hk
  -- the manifest
  unfold curManifest at hmf
  cases hc : d.current with
  | none => rw [hc] at hmf; simp at hmf
  | some m =>
    rw [hc] at hmf
    simp only [Option.bind_some] at hmf
    have hall : (replayM cfg mf.all).view? = some v := by
      unfold viewAt at hv
      rwa [List.take_length] at hv
    -- the journals: an ascending stream; the records below the manifest's sequence number are skipped
    have hrel : ∀ p ∈ relJournals d v.jn, p ∈ relJournals d v0.jn := fun p hp => relJournals_mono hmono hp
    have hstream : AscFrom 0 ((relJournals d v.jn).flatMap (·.2.all)) := by
      apply stream_asc
      · exact hs.filter _
      · exact fun p hp => hasc p (hrel p hp)
      · exact fun p hp q hq => hord p (hrel p hp) q (hrel q hq)
      · exact fun p hp g hg => Nat.zero_le _
    obtain ⟨a1, a2, a3⟩ := replayJ_filter (s := v.sq) hstream
    have hjr : journalRecs d (journalsFrom d v.jn) = (relJournals d v.jn).flatMap (·.2.all) := by
      rw [journalsFrom_eq hs]
      exact journalRecs_eq hs _ (fun p hp => (mem_relJournals.1 hp).1)
    have htg := tableGroups_ok (d := d) v.live (fun t ht => (hok.tables t ht).2)
    have hmemj : ∀ g, g ∈ ((relJournals d v.jn).flatMap (·.2.all)).filter (fun g => decide (v.sq ≤ g.seq)) ↔
        (∃ p ∈ relJournals d v.jn, g ∈ p.2.all) ∧ v.sq ≤ g.seq := by
      intro g
      simp only [List.mem_filter, List.mem_flatMap, decide_eq_true_eq]
    refine ⟨⟨v, journalsFrom d v.jn, liveGrps d v,
      ((relJournals d v.jn).flatMap (·.2.all)).filter (fun g => decide (v.sq ≤ g.seq)),
      (replayJ v.sq ((relJournals d v.jn).flatMap (·.2.all))).2⟩, ?_, ?_⟩
    · unfold recoverR
      simp only [hc, hmf, hall, htg, hjr, a1]
      rfl
    · constructor
      · intro g hg
        simp only [RState.grps, List.mem_append]
        rcases hok.cover g hg with h1 | ⟨p, hp, hgp⟩
        · exact Or.inl h1
        · have hga : g ∈ p.2.all := by simp [LogFile.all, hgp]
          refine Or.inr ((hmemj g).2 ⟨⟨p, hp, hga⟩, ?_⟩)
          rcases (hok.jseq p hp g hga).1 with h1 | h1
          · exact h1
          · exact absurd hg h1
      · intro g hg
        simp only [RState.grps, List.mem_append] at hg
        rcases hg with h1 | h1
        · exact (hok.tseq g h1).2.1
        · obtain ⟨⟨p, hp, hgp⟩, _⟩ := (hmemj g).1 h1
          exact (hok.jseq p hp g hgp).2
      · intro g hg
        simp only [RState.grps, List.mem_append] at hg
        show g.fin ≤ (replayJ v.sq ((relJournals d v.jn).flatMap (·.2.all))).2 + 1
        rcases hg with h1 | h1
        · have := (hok.tseq g h1).1
          omega
        · have := a3 g ((List.mem_filter.1 h1).1) ((hmemj g).1 h1).2
          omega
      · intro g hg h' hh
        simp only [RState.grps, List.mem_append] at hg hh
        rcases hg with h1 | h1 <;> rcases hh with h2 | h2
        · exact hok.tdisj g h1 h' h2
        · obtain ⟨⟨p, hp, hgp⟩, _⟩ := (hmemj h').1 h2
          exact hok.tj g h1 p hp h' hgp
        · obtain ⟨⟨p, hp, hgp⟩, _⟩ := (hmemj g).1 h1
          rcases hok.tj h' h2 p hp g hgp with x | x | x
          · exact Or.inl x.symm
          · exact Or.inr (Or.inr x)
          · exact Or.inr (Or.inl x)
        · exact hstream.disj ((List.mem_filter.1 h1).1) ((List.mem_filter.1 h2).1)
      · intro g hg
        simp only [RState.grps, List.mem_append] at hg
        rcases hg with h1 | h1
        · exact (hok.tseq g h1).2.2
        · exact hstream.recs_ne ((List.mem_filter.1 h1).1)

end GoLevel.Dur
