import GoLevel.Proofs.SeqDBBasic
/-!
# Sequential DB — the state invariant and its preservation

`Inv c st`: the sources of `DB.get` satisfy the hypotheses of C01 (`SourcesOK`), no two entries share user
key and sequence number (`UniqSeq`, needed by C03), table numbers are distinct and below `nextTable`, every
entry's sequence number is at most `db.seq`, kinds are del/val, snapshots are at most `db.seq` and their ids
below `nextSnap`.  Each client operation and each accepted background step preserves it; the proofs for
flush, compaction and trivial move are instances of `C06.flush_preserves_wf`,
`C03.compaction_preserves_lookup`, `C06.trivial_move_preserves_wf`.
-/
namespace GoLevel.SeqDB
open GoLevel.C01 (SourcesOK)

/-- everything `DB.get` searches, in search order -/
def curE (st : State) : List Entry := st.mem ++ (st.frozen.getD [] ++ st.ver.entries)

theorem dbEntries_eq_curE (st : State) : dbEntries none [] st.mem st.frozen st.ver = curE st := by
  simp [dbEntries, curE, Level.entries]

theorem mem_curE {st : State} {x : Entry} :
    x ∈ curE st ↔ x ∈ st.mem ∨ x ∈ st.frozen.getD [] ∨ x ∈ st.ver.entries := by
  simp [curE, List.mem_append]

structure Inv (c : UCmp) (st : State) : Prop where
  /-- the hypotheses of `C01.lookup_refines_view` -/
  sources : SourcesOK c none [] st.mem st.frozen st.ver
  /-- no two live entries share user key and sequence number -/
  uniq : UniqSeq (curE st)
  /-- distinct table numbers … -/
  nums : ∀ i j, ∀ x ∈ st.ver.lvl i, ∀ y ∈ st.ver.lvl j, x.num = y.num → x = y
  /-- … all allocated earlier -/
  nums_lt : ∀ i, ∀ x ∈ st.ver.lvl i, x.num < st.nextTable
  seq_le : ∀ e ∈ curE st, e.seq ≤ st.seq
  kinds : KindsOK (curE st)
  snaps_le : ∀ p ∈ st.snaps, p.2 ≤ st.seq
  snaps_lt : ∀ p ∈ st.snaps, p.1 < st.nextSnap

/-! ## `SourcesOK` without auxiliary sources, in Prop form -/

section sources
variable {c : UCmp} (hl : LawfulUCmp c)
include hl

theorem sourcesOK_mk (mem : List Entry) (frozen : Option (List Entry)) (ver : Version)
    (hms : ESorted c mem) (hmk : KindsOK mem)
    (hfs : ESorted c (frozen.getD [])) (hfk : KindsOK (frozen.getD []))
    (hwf : ver.wfB c = true) (hu0 : UniqSeq (Level.entries (ver.levels.headD [])))
    (ho2 : NewerThan mem (frozen.getD [] ++ ver.entries))
    (ho3 : NewerThan (frozen.getD []) ver.entries) : SourcesOK c none [] mem frozen ver where
  auxm_sorted := rfl
  auxm_kinds := by intro e he; simp at he
  mem_sorted := (sortedB_iff hl _).2 hms
  mem_kinds := hmk
  frozen_sorted := (sortedB_iff hl _).2 hfs
  frozen_kinds := hfk
  aux_wf := by intro t ht; cases ht
  aux_uniq := by intro a ha; simp [Level.entries] at ha
  wf := hwf
  l0_uniq := hu0
  ord1 := rfl
  ord2 := by
    rw [newerThanB_iff hl]
    simpa [Level.entries] using ho2
  ord3 := by
    rw [newerThanB_iff hl]
    simpa [Level.entries] using ho3
  ord4 := by
    rw [newerThanB_iff hl]
    exact NewerThan.nil_left _

theorem SourcesOK_mem_sorted {mem : List Entry} {frozen : Option (List Entry)} {ver : Version}
    (h : SourcesOK c none [] mem frozen ver) : ESorted c mem := (sortedB_iff hl _).1 h.mem_sorted

theorem SourcesOK_frozen_sorted {mem : List Entry} {frozen : Option (List Entry)} {ver : Version}
    (h : SourcesOK c none [] mem frozen ver) : ESorted c (frozen.getD []) :=
  (sortedB_iff hl _).1 h.frozen_sorted

theorem SourcesOK_ord2 {mem : List Entry} {frozen : Option (List Entry)} {ver : Version}
    (h : SourcesOK c none [] mem frozen ver) : NewerThan mem (frozen.getD [] ++ ver.entries) := by
  have := (newerThanB_iff hl _ _).1 h.ord2
  simpa [Level.entries] using this

theorem SourcesOK_ord3 {mem : List Entry} {frozen : Option (List Entry)} {ver : Version}
    (h : SourcesOK c none [] mem frozen ver) : NewerThan (frozen.getD []) ver.entries := by
  have := (newerThanB_iff hl _ _).1 h.ord3
  simpa [Level.entries] using this

/-- write buffer and frozen buffer together are newer than the version -/
theorem Inv.pre_newer {st : State} (h : Inv c st) :
    NewerThan (st.mem ++ st.frozen.getD []) st.ver.entries := by
  apply NewerThan.append_left
  · exact (SourcesOK_ord2 hl h.sources).mono (fun _ h => h) (fun _ h => List.mem_append_right _ h)
  · exact SourcesOK_ord3 hl h.sources

end sources

theorem Inv.uniq_ver {c : UCmp} {st : State} (h : Inv c st) : UniqSeq st.ver.entries :=
  h.uniq.of_subset (fun _ hx => mem_curE.2 (.inr (.inr hx)))

theorem Inv.nums_lvl {c : UCmp} {st : State} (h : Inv c st) :
    ∀ i, ∀ x ∈ st.ver.lvl i, ∀ y ∈ st.ver.lvl i, x.num = y.num → x = y := fun i => h.nums i i

/-! ## the empty DB -/

theorem inv_init {c : UCmp} (hl : LawfulUCmp c) : Inv c init where
  sources := sourcesOK_mk hl [] none ⟨[]⟩ List.Pairwise.nil (by intro e he; cases he) List.Pairwise.nil
    (by intro e he; cases he) rfl (by intro a ha; simp [Level.entries] at ha)
    (NewerThan.nil_left _) (NewerThan.nil_left _)
  uniq := by intro a ha; simp [curE, init, Version.entries] at ha
  nums := by intro i j x hx; simp [init, Version.lvl] at hx
  nums_lt := by intro i x hx; simp [init, Version.lvl] at hx
  seq_le := by intro a ha; simp [curE, init, Version.entries] at ha
  kinds := by intro a ha; simp [curE, init, Version.entries] at ha
  snaps_le := by intro p hp; cases hp
  snaps_lt := by intro p hp; cases hp

/-! ## writes -/

theorem mem_curE_write1 (c : UCmp) (st : State) (r : Rec) (x : Entry) :
    x ∈ curE (write1 c st r) ↔ x = recEntry (st.seq + 1) r ∨ x ∈ curE st := by
  simp only [mem_curE, write1, mem_insertSorted, or_assoc]

theorem inv_write1 {c : UCmp} (hl : LawfulUCmp c) {st : State} (h : Inv c st) (r : Rec) :
    Inv c (write1 c st r) := by
  have hlt : ∀ x ∈ curE st, x.seq < (recEntry (st.seq + 1) r).seq := by
    intro x hx
    have := h.seq_le x hx
    rw [recEntry_seq]; omega
  have hmemsub : ∀ x ∈ st.mem, x ∈ curE st := fun x hx => mem_curE.2 (.inl hx)
  refine ⟨?_, ?_, h.nums, h.nums_lt, ?_, ?_, ?_, h.snaps_lt⟩
  · apply sourcesOK_mk hl
    · apply insertSorted_sorted hl _ _ (SourcesOK_mem_sorted hl h.sources)
      intro x hx hk
      have h1 := hlt x (hmemsub x hx)
      have h2 : x.seq = (recEntry (st.seq + 1) r).seq := congrArg IKey.seq hk
      omega
    · intro x hx
      rcases (mem_insertSorted _ x _).1 hx with rfl | hx
      · exact recEntry_kind_le _ _
      · exact h.sources.mem_kinds x hx
    · exact SourcesOK_frozen_sorted hl h.sources
    · exact h.sources.frozen_kinds
    · exact h.sources.wf
    · exact h.sources.l0_uniq
    · intro a ha b hb hk
      rcases (mem_insertSorted _ a _).1 ha with rfl | ha
      · exact hlt b (mem_curE.2 (.inr (List.mem_append.1 hb)))
      · exact SourcesOK_ord2 hl h.sources a ha b hb hk
    · exact SourcesOK_ord3 hl h.sources
  · intro a ha b hb hk hs
    rw [mem_curE_write1] at ha hb
    rcases ha with rfl | ha <;> rcases hb with rfl | hb
    · rfl
    · have := hlt b hb; omega
    · have := hlt a ha; omega
    · exact h.uniq a ha b hb hk hs
  · intro a ha
    rw [mem_curE_write1] at ha
    show a.seq ≤ st.seq + 1
    rcases ha with rfl | ha
    · rw [recEntry_seq]; omega
    · have := h.seq_le a ha; omega
  · intro a ha
    rw [mem_curE_write1] at ha
    rcases ha with rfl | ha
    · exact recEntry_kind_le _ _
    · exact h.kinds a ha
  · intro p hp
    show p.2 ≤ st.seq + 1
    have := h.snaps_le p hp; omega

theorem inv_write {c : UCmp} (hl : LawfulUCmp c) (batch : List Rec) {st : State} (h : Inv c st) :
    Inv c (write c st batch) := by
  induction batch generalizing st with
  | nil => rw [write_nil]; exact h
  | cons r rs ih => rw [write_cons]; exact ih (inv_write1 hl h r)

/-! ## snapshots -/

theorem inv_snapAcquire {c : UCmp} {st : State} (h : Inv c st) :
    Inv c { st with snaps := st.snaps ++ [(st.nextSnap, st.seq)], nextSnap := st.nextSnap + 1 } := by
  refine ⟨h.sources, h.uniq, h.nums, h.nums_lt, h.seq_le, h.kinds, ?_, ?_⟩
  · intro p hp
    rcases List.mem_append.1 hp with hp | hp
    · exact h.snaps_le p hp
    · rw [List.mem_singleton.1 hp]; exact Nat.le_refl _
  · intro p hp
    show p.1 < st.nextSnap + 1
    rcases List.mem_append.1 hp with hp | hp
    · have := h.snaps_lt p hp; omega
    · rw [List.mem_singleton.1 hp]; exact Nat.lt_succ_self _

theorem inv_snapRelease {c : UCmp} {st : State} (h : Inv c st) (id : Nat) :
    Inv c { st with snaps := alErase st.snaps id } :=
  ⟨h.sources, h.uniq, h.nums, h.nums_lt, h.seq_le, h.kinds,
    fun p hp => h.snaps_le p (mem_alErase hp), fun p hp => h.snaps_lt p (mem_alErase hp)⟩

theorem inv_clientStep {c : UCmp} (hl : LawfulUCmp c) {st : State} (h : Inv c st) (op : ClientOp) :
    Inv c (clientStep c st op).1 := by
  cases op with
  | put k v => exact inv_write hl _ h
  | del k => exact inv_write hl _ h
  | write batch => exact inv_write hl _ h
  | get k => exact h
  | has k => exact h
  | snapAcquire => exact inv_snapAcquire h
  | snapGet id k =>
    simp only [clientStep]
    split <;> exact h
  | snapRelease id => exact inv_snapRelease h id

/-! ## background steps -/

theorem inv_rotate {c : UCmp} (hl : LawfulUCmp c) {st : State} (h : Inv c st) (hf : st.frozen = none) :
    Inv c { st with frozen := some st.mem, mem := [] } := by
  have hmem : ∀ x, x ∈ curE { st with frozen := some st.mem, mem := [] } ↔ x ∈ curE st := by
    intro x; simp [mem_curE, hf]
  have ho2 := SourcesOK_ord2 hl h.sources
  rw [hf] at ho2
  refine ⟨?_, h.uniq.of_subset (fun x hx => (hmem x).1 hx), h.nums, h.nums_lt,
    fun x hx => h.seq_le x ((hmem x).1 hx), fun x hx => h.kinds x ((hmem x).1 hx), h.snaps_le, h.snaps_lt⟩
  apply sourcesOK_mk hl
  · exact List.Pairwise.nil
  · intro e he; cases he
  · exact SourcesOK_mem_sorted hl h.sources
  · exact h.sources.mem_kinds
  · exact h.sources.wf
  · exact h.sources.l0_uniq
  · exact NewerThan.nil_left _
  · simpa using ho2

theorem inv_dropEmpty {c : UCmp} (hl : LawfulUCmp c) {st : State} (h : Inv c st) (hf : st.frozen = some []) :
    Inv c { st with frozen := none } := by
  have hmem : ∀ x, x ∈ curE { st with frozen := none } ↔ x ∈ curE st := by
    intro x; simp [mem_curE, hf]
  have ho2 := SourcesOK_ord2 hl h.sources
  rw [hf] at ho2
  refine ⟨?_, h.uniq.of_subset (fun x hx => (hmem x).1 hx), h.nums, h.nums_lt,
    fun x hx => h.seq_le x ((hmem x).1 hx), fun x hx => h.kinds x ((hmem x).1 hx), h.snaps_le, h.snaps_lt⟩
  apply sourcesOK_mk hl
  · exact SourcesOK_mem_sorted hl h.sources
  · exact h.sources.mem_kinds
  · exact List.Pairwise.nil
  · intro e he; cases he
  · exact h.sources.wf
  · exact h.sources.l0_uniq
  · simpa using ho2
  · exact NewerThan.nil_left _

/-- the table `flushMemdb` writes is well formed -/
theorem tableOf_wfB {c : UCmp} (n : Nat) (f : List Entry) (hs : sortedB c f = true) (hk : KindsOK f)
    (hne : f ≠ []) : (tableOf n f).wfB c = true := by
  cases f with
  | nil => exact absurd rfl hne
  | cons e es =>
    obtain ⟨l, hl⟩ : ∃ l, (e :: es).getLast? = some l := by
      cases h : (e :: es).getLast? with
      | none => simp at h
      | some l => exact ⟨l, rfl⟩
    have hall : (e :: es).all (fun x => decide (x.kind ≤ Gen.keyTypeVal)) = true := by
      rw [List.all_eq_true]
      intro x hx
      exact decide_eq_true (hk x hx)
    unfold Table.wfB tableOf
    simp only [hs, hl, hall, List.head?_cons, Option.map_some, Option.getD_some, decide_true, Bool.and_self]

theorem apply_lvl_sub (c : UCmp) (v : Version) (e : Edit) (i : Nat) (x : Table)
    (hx : x ∈ (v.apply c e).lvl i) : x ∈ v.lvl i ∨ (i, x) ∈ e.added := by
  rw [Version.apply_lvl, Version.mem_newLevel, Version.mem_survivors] at hx
  rcases hx with ⟨h, _⟩ | h
  · exact .inl h
  · exact .inr h

/-- a flush moves the frozen buffer's entries into the version: the searched set is unchanged -/
theorem mem_curE_flush (c : UCmp) (st : State) (e : Entry) (es : List Entry)
    (hf : st.frozen = some (e :: es)) (x : Entry) :
    x ∈ curE { st with ver := st.ver.apply c (flushEdit 0 (tableOf st.nextTable (e :: es))), frozen := none,
                       nextTable := st.nextTable + 1 } ↔ x ∈ curE st := by
  have hment : x ∈ (st.ver.apply c (flushEdit 0 (tableOf st.nextTable (e :: es)))).entries ↔
      x ∈ e :: es ∨ x ∈ st.ver.entries := flush_entries c st.ver 0 _ x
  simp only [mem_curE, hf, hment, Option.getD_none, Option.getD_some, List.not_mem_nil, false_or]

theorem inv_flush {c : UCmp} (hl : LawfulUCmp c) {st : State} (h : Inv c st) (e : Entry) (es : List Entry)
    (hf : st.frozen = some (e :: es)) :
    Inv c { st with ver := st.ver.apply c (flushEdit 0 (tableOf st.nextTable (e :: es))), frozen := none,
                    nextTable := st.nextTable + 1 } := by
  have hfs := h.sources.frozen_sorted
  have hfk := h.sources.frozen_kinds
  have ho2 := SourcesOK_ord2 hl h.sources
  have ho3 := SourcesOK_ord3 hl h.sources
  rw [hf] at hfs hfk ho2 ho3
  simp only [Option.getD_some] at hfs hfk ho2 ho3
  have htwf : (tableOf st.nextTable (e :: es)).wfB c = true := tableOf_wfB _ _ hfs hfk (by simp)
  have hwf' := C06.flush_preserves_wf hl st.ver (tableOf st.nextTable (e :: es)) 0 h.sources.wf htwf
    ((newerThanB_iff hl _ _).2 ho3) (.inl rfl)
  have hment : ∀ x, x ∈ (st.ver.apply c (flushEdit 0 (tableOf st.nextTable (e :: es)))).entries ↔
      x ∈ e :: es ∨ x ∈ st.ver.entries := fun x => flush_entries c st.ver 0 _ x
  have hmem := mem_curE_flush c st e es hf
  have huniq := h.uniq.of_subset (fun x hx => (hmem x).1 hx)
  have htab : ∀ i x, x ∈ (st.ver.apply c (flushEdit 0 (tableOf st.nextTable (e :: es)))).lvl i →
      x ∈ st.ver.lvl i ∨ x = tableOf st.nextTable (e :: es) := by
    intro i x hx
    rcases apply_lvl_sub c _ _ i x hx with h1 | h1
    · exact .inl h1
    · simp only [flushEdit, List.mem_singleton, Prod.mk.injEq] at h1
      exact .inr h1.2
  refine ⟨?_, huniq, ?_, ?_, fun x hx => h.seq_le x ((hmem x).1 hx), fun x hx => h.kinds x ((hmem x).1 hx),
    h.snaps_le, h.snaps_lt⟩
  · apply sourcesOK_mk hl
    · exact SourcesOK_mem_sorted hl h.sources
    · exact h.sources.mem_kinds
    · exact List.Pairwise.nil
    · intro e he; cases he
    · exact hwf'
    · exact huniq.of_subset (fun x hx => mem_curE.2 (.inr (.inr (Version.headD_entries_subset _ x hx))))
    · intro a ha b hb hk
      have hb' : b ∈ (st.ver.apply c (flushEdit 0 (tableOf st.nextTable (e :: es)))).entries := by
        simpa using hb
      exact ho2 a ha b (List.mem_append.2 ((hment b).1 hb')) hk
    · exact NewerThan.nil_left _
  · intro i j x hx y hy hn
    rcases htab i x hx with hx | rfl <;> rcases htab j y hy with hy | rfl
    · exact h.nums i j x hx y hy hn
    · have := h.nums_lt i x hx
      simp only [tableOf] at hn; omega
    · have := h.nums_lt j y hy
      simp only [tableOf] at hn; omega
    · rfl
  · intro i x hx
    show x.num < st.nextTable + 1
    rcases htab i x hx with hx | rfl
    · have := h.nums_lt i x hx; omega
    · simp only [tableOf]; omega

/-- replacing the version by one that is well formed, holds only entries the old one held and keeps table
numbers distinct -/
theorem inv_replace_ver {c : UCmp} (hl : LawfulUCmp c) {st : State} (h : Inv c st) (v' : Version) (n' : Nat)
    (hwf : v'.wfB c = true) (hsub : ∀ x ∈ v'.entries, x ∈ st.ver.entries)
    (hnums : ∀ i j, ∀ x ∈ v'.lvl i, ∀ y ∈ v'.lvl j, x.num = y.num → x = y)
    (hlt : ∀ i, ∀ x ∈ v'.lvl i, x.num < n') :
    Inv c { st with ver := v', nextTable := n' } := by
  have hmem : ∀ x, x ∈ curE { st with ver := v', nextTable := n' } → x ∈ curE st := by
    intro x hx
    rw [mem_curE] at hx ⊢
    rcases hx with hx | hx | hx
    · exact .inl hx
    · exact .inr (.inl hx)
    · exact .inr (.inr (hsub x hx))
  have huniq := h.uniq.of_subset hmem
  refine ⟨?_, huniq, hnums, hlt, fun x hx => h.seq_le x (hmem x hx), fun x hx => h.kinds x (hmem x hx),
    h.snaps_le, h.snaps_lt⟩
  apply sourcesOK_mk hl
  · exact SourcesOK_mem_sorted hl h.sources
  · exact h.sources.mem_kinds
  · exact SourcesOK_frozen_sorted hl h.sources
  · exact h.sources.frozen_kinds
  · exact hwf
  · exact huniq.of_subset (fun x hx => mem_curE.2 (.inr (.inr (Version.headD_entries_subset _ x hx))))
  · exact (SourcesOK_ord2 hl h.sources).mono (fun _ h => h) (fun x hx => by
      rcases List.mem_append.1 hx with hx | hx
      · exact List.mem_append_left _ hx
      · exact List.mem_append_right _ (hsub x hx))
  · exact (SourcesOK_ord3 hl h.sources).mono (fun _ h => h) hsub

/-- what a committed table compaction does to the version (instance of C03 / C06) -/
theorem compact_facts {c : UCmp} (hl : LawfulUCmp c) {st : State} (h : Inv c st) (ℓ : Nat)
    (S0 S1 nts : List Table) (minSeq : Nat) (umin umax : Bytes)
    (hok : CompactionOK c st.ver ℓ S0 S1 nts minSeq umin umax) :
    (st.ver.apply c (replaceEdit ℓ S0 S1 nts)).wfB c = true ∧
    (∀ x ∈ (st.ver.apply c (replaceEdit ℓ S0 S1 nts)).entries, x ∈ st.ver.entries) ∧
    ∀ (k : Bytes) (s : Nat), minSeq ≤ s →
      view c (st.ver.apply c (replaceEdit ℓ S0 S1 nts)).entries k s = view c st.ver.entries k s := by
  have hw := (Version.wfB_iff_WFi hl st.ver).1 h.sources.wf
  have h1 := C03.compaction_preserves_lookup hl st.ver ℓ S0 S1 nts minSeq umin umax h.sources.wf h.uniq_ver
    h.nums_lvl hok
  have h2 := compaction_view hl st.ver ℓ S0 S1 nts minSeq (baseLevelForKey c st.ver ℓ) umin umax
    h.sources.wf h.uniq_ver h.nums_lvl hok.src_sub hok.dst_sub hok.distinct hok.cut hok.range hok.dst_all
    hok.src_closed (fun k hk => baseLevelForKey_sound hl st.ver hw ℓ k hk)
  exact ⟨h1.1, h2.1, fun k s hs => (h1.2.2 k s hs).1⟩

theorem inv_compact {c : UCmp} (hl : LawfulUCmp c) {st : State} (h : Inv c st) (ℓ : Nat)
    (S0 S1 nts : List Table) (minSeq : Nat) (umin umax : Bytes)
    (hg : CompactGuard c st ℓ S0 S1 nts minSeq umin umax) :
    Inv c { st with ver := st.ver.apply c (replaceEdit ℓ S0 S1 nts),
                    nextTable := (nts.map (·.num)).foldl max st.nextTable + 1 } := by
  obtain ⟨hok, _, _, hpw, hfresh⟩ := hg
  obtain ⟨hwf', hsub, _⟩ := compact_facts hl h ℓ S0 S1 nts minSeq umin umax hok
  have hmax := foldl_max_ge (nts.map (·.num)) st.nextTable
  have htab : ∀ i x, x ∈ (st.ver.apply c (replaceEdit ℓ S0 S1 nts)).lvl i → x ∈ st.ver.lvl i ∨ x ∈ nts := by
    intro i x hx
    rcases apply_lvl_sub c _ _ i x hx with h1 | h1
    · exact .inl h1
    · exact .inr ((replaceEdit_added ℓ S0 S1 nts (i, x)).1 h1).2
  have hpw' : nts.Pairwise (fun a b => a.num ≠ b.num) := List.pairwise_map.1 hpw
  apply inv_replace_ver hl h _ _ hwf' hsub
  · intro i j x hx y hy hn
    rcases htab i x hx with hx | hx <;> rcases htab j y hy with hy | hy
    · exact h.nums i j x hx y hy hn
    · have := h.nums_lt i x hx
      have := hfresh y hy; omega
    · have := h.nums_lt j y hy
      have := hfresh x hx; omega
    · by_cases hxy : x = y
      · exact hxy
      · rcases pairwise_ne_cases hpw' hx hy hxy with h' | h'
        · exact absurd hn h'
        · exact absurd hn.symm h'
  · intro i x hx
    rcases htab i x hx with hx | hx
    · have := h.nums_lt i x hx; omega
    · have := hmax.2 x.num (List.mem_map.2 ⟨x, hx, rfl⟩); omega

/-- a trivial move keeps the version's set of entries -/
theorem move_entries {c : UCmp} {st : State} (h : Inv c st) (ℓ : Nat) (t : Table) (ht : t ∈ st.ver.lvl ℓ)
    (x : Entry) : x ∈ (st.ver.apply c (replaceEdit ℓ [t] [] [t])).entries ↔ x ∈ st.ver.entries :=
  replace_entries_same c st.ver ℓ [t] [] [t] h.nums_lvl
    (fun s hs => by rw [List.mem_singleton.1 hs]; exact ht) (fun s hs => by cases hs)
    (fun x => by simp) x

theorem inv_move {c : UCmp} (hl : LawfulUCmp c) {st : State} (h : Inv c st) (ℓ : Nat) (t : Table)
    (hg : MoveGuard c st ℓ t) :
    Inv c { st with ver := st.ver.apply c (replaceEdit ℓ [t] [] [t]) } := by
  obtain ⟨ht, hdst, hL0⟩ := hg
  have hwf' := C06.trivial_move_preserves_wf hl st.ver ℓ t h.sources.wf ht hdst hL0
  have htab : ∀ i x, x ∈ (st.ver.apply c (replaceEdit ℓ [t] [] [t])).lvl i → ∃ j, x ∈ st.ver.lvl j := by
    intro i x hx
    rcases apply_lvl_sub c _ _ i x hx with h1 | h1
    · exact ⟨i, h1⟩
    · have hxt : x ∈ [t] := ((replaceEdit_added ℓ [t] [] [t] (i, x)).1 h1).2
      rw [List.mem_singleton.1 hxt]; exact ⟨ℓ, ht⟩
  apply inv_replace_ver hl h _ st.nextTable hwf' (fun x hx => (move_entries h ℓ t ht x).1 hx)
  · intro i j x hx y hy hn
    obtain ⟨i', hx'⟩ := htab i x hx
    obtain ⟨j', hy'⟩ := htab j y hy
    exact h.nums i' j' x hx' y hy' hn
  · intro i x hx
    obtain ⟨i', hx'⟩ := htab i x hx
    exact h.nums_lt i' x hx'

theorem inv_bgStep {c : UCmp} (hl : LawfulUCmp c) {st st' : State} (h : Inv c st) (b : Bg)
    (hb : bgStep c st b = some st') : Inv c st' := by
  cases b with
  | rotate =>
    simp only [bgStep] at hb
    split at hb
    · rename_i hf
      rw [← Option.some.inj hb]; exact inv_rotate hl h hf
    · cases hb
  | flush =>
    simp only [bgStep] at hb
    split at hb
    · cases hb
    · rename_i hf
      rw [← Option.some.inj hb]; exact inv_dropEmpty hl h hf
    · rename_i e es hf
      rw [← Option.some.inj hb]; exact inv_flush hl h e es hf
  | compact ℓ S0 S1 nts minSeq umin umax =>
    simp only [bgStep] at hb
    split at hb
    · rename_i hg
      rw [← Option.some.inj hb]; exact inv_compact hl h ℓ S0 S1 nts minSeq umin umax hg
    · cases hb
  | move ℓ t =>
    simp only [bgStep] at hb
    split at hb
    · rename_i hg
      rw [← Option.some.inj hb]; exact inv_move hl h ℓ t hg
    · cases hb

theorem inv_step {c : UCmp} (hl : LawfulUCmp c) {st : State} (h : Inv c st) (ev : Event) :
    Inv c (step c st ev).1 := by
  cases ev with
  | client op => exact inv_clientStep hl h op
  | bg b =>
    show Inv c ((bgStep c st b).getD st)
    cases hb : bgStep c st b with
    | none => exact h
    | some st' => exact inv_bgStep hl h b hb

theorem inv_runState {c : UCmp} (hl : LawfulUCmp c) (es : List Event) {st : State} (h : Inv c st) :
    Inv c (runState c st es) := by
  induction es generalizing st with
  | nil => exact h
  | cons e es ih => exact ih (inv_step hl h e)

end GoLevel.SeqDB
