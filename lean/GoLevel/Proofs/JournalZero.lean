import GoLevel.Proofs.JournalTrunc
/-! A stream followed by zero bytes (preallocated / zero-extended file). -/
namespace GoLevel.Journal
open GoLevel.Gen (journalBlockSize journalHeaderSize fullChunkType firstChunkType middleChunkType lastChunkType)

local notation "blockSize" => journalBlockSize
local notation "headerSize" => journalHeaderSize

theorem rdLE_zeros (k : Nat) : rdLE (List.replicate k (0 : UInt8)) = 0 := by
  induction k with
  | zero => rfl
  | succ k ih => simp [List.replicate_succ, rdLE, ih]

/-- seven zero bytes are a "zero header": the rest of the block is dropped -/
theorem parseChunk_zeros (s c first : Bool) (pos k n : Nat) :
    parseChunk s c first pos (List.replicate k 0) n =
      corrupt s (n - pos) .zeroHeader false ⟨n, List.replicate (k - (n - pos)) 0⟩ := by
  unfold parseChunk
  have e1 : rd32 (List.replicate k (0 : UInt8)) = 0 := by
    simp [rd32, List.take_replicate, rdLE_zeros]
  have e2 : ∀ j, rd16 (List.replicate j (0 : UInt8)) = 0 := by
    intro j; simp [rd16, List.take_replicate, rdLE_zeros]
  have e3 : ((List.replicate k (0 : UInt8)).getD 6 0).toNat = 0 := by
    simp only [List.getD_eq_getElem?_getD, List.getElem?_replicate]
    split <;> simp
  simp only [List.drop_replicate, e1, e2, e3, and_self, if_true]

/-- one `nextChunk` on a run of zeros: end of stream, or a "zero header" drop leaving a shorter run -/
theorem nextChunk_zeros (s c first : Bool) (pos k : Nat) (hpos : pos ≤ blockSize) :
    (∃ st', st'.rest.length < headerSize ∧ nextChunk s c first ⟨pos, List.replicate k 0⟩ = endOfStream s first st') ∨
    ∃ x pos' k', pos' ≤ blockSize ∧ k' < k ∧
      nextChunk s c first ⟨pos, List.replicate k 0⟩ = corrupt s x .zeroHeader false ⟨pos', List.replicate k' 0⟩ := by
  have h7 := headerSize_eq
  have hlt := headerSize_lt_blockSize
  unfold nextChunk nextChunkLoop
  simp only [List.length_replicate, List.drop_replicate]
  split
  · right
    exact ⟨_, _, _, by omega, by omega, parseChunk_zeros _ _ _ _ _ _⟩
  · split
    · left; exact ⟨_, by simp only [List.length_replicate]; omega, rfl⟩
    · split
      · left; exact ⟨_, by simp only [List.length_replicate]; omega, rfl⟩
      · unfold nextChunkLoop
        simp only [List.length_replicate, List.drop_replicate]
        split
        · right
          exact ⟨_, _, _, by omega, by omega, parseChunk_zeros _ _ _ _ _ _⟩
        · split
          · left; exact ⟨⟨0, _⟩, by simp only [List.length_replicate]; omega, rfl⟩
          · omega

/-- all events are "zero header" drops -/
def AllZeroDrops (es : List Event) : Prop := ∀ e ∈ es, ∃ x, e = .drop x .zeroHeader

/-- tolerant reader on a run of zeros: only "zero header" drops, then EOF -/
theorem decodeLoop_zeros_tolerant (c : Bool) (pos k : Nat) (hpos : pos ≤ blockSize) :
    ∃ ds, AllZeroDrops ds ∧ decodeLoop false c ⟨pos, List.replicate k 0⟩ none = ⟨ds, .eof⟩ := by
  induction k using Nat.strongRecOn generalizing pos with
  | _ k ih =>
    rcases nextChunk_zeros false c true pos k hpos with ⟨st', _, e⟩ | ⟨x, pos', k', hp', hk', e⟩
    · refine ⟨[], by simp [AllZeroDrops], ?_⟩
      exact decodeLoop_eof (cur := none) (by simpa [endOfStream] using e)
    · obtain ⟨ds, hds, e'⟩ := ih k' hk' pos' hp'
      refine ⟨.drop x .zeroHeader :: ds, ?_, ?_⟩
      · intro ev hev
        rcases List.mem_cons.mp hev with h | h
        · exact ⟨x, h⟩
        · exact hds ev h
      · rw [decodeLoop_skip (cur := none) (by simpa [corrupt] using e), e']
        rfl

/-- strict reader on a run of zeros: EOF if no header-sized run is seen, else one "zero header" error -/
theorem decodeLoop_zeros_strict (c : Bool) (pos k : Nat) (hpos : pos ≤ blockSize) :
    decodeLoop true c ⟨pos, List.replicate k 0⟩ none = ⟨[], .eof⟩ ∨
    ∃ x, decodeLoop true c ⟨pos, List.replicate k 0⟩ none = ⟨[.drop x .zeroHeader], .corrupt⟩ := by
  rcases nextChunk_zeros true c true pos k hpos with ⟨st', _, e⟩ | ⟨x, pos', k', hp', hk', e⟩
  · left; exact decodeLoop_eof (cur := none) (by simpa [endOfStream] using e)
  · right; exact ⟨x, decodeLoop_corrupt (cur := none) (by simpa [corrupt] using e)⟩

end GoLevel.Journal
