import GoLevel.Proofs.DurableStepR2
/-!
`recStep`: spawning the intermediate and the final commit of a recovery.
-/
namespace GoLevel.Dur

/-- the output tables of a recovery commit: the recovery memdb, if it is not empty -/
def recOuts (s : St) (r : Recov) : List (Nat × List Grp) := if r.mdb.isEmpty then [] else [(s.nextFile, r.mdb)]

def recNext (s : St) (r : Recov) : Nat := if r.mdb.isEmpty then s.nextFile else s.nextFile + 1

def midJob (s : St) (r : Recov) (j o : Nat) : Job :=
  { kind := .recovMid, outs := recOuts s r,
    edit := some { jn := some j, sq := some s.seq, added := (recOuts s r).map (·.1) },
    rmJournals := [o], pc := if (recOuts s r).isEmpty then .append else .tCreate 0 }

def finalJob (s : St) (r : Recov) : Job :=
  { kind := .recovFinal, outs := recOuts s r, mkJournal := some (recNext s r),
    edit := some { jn := some (recNext s r), sq := some s.seq, added := (recOuts s r).map (·.1) },
    rmJournals := r.ofd.toList, pc := if (recOuts s r).isEmpty then .mkJournal else .tCreate 0 }

theorem recStep_mid_eq {s : St} {d : Disk} {r : Recov} {j o : Nat} {rest : List Nat}
    (hph : s.phase = .recovering) (hjob : s.job = none) (hr : s.recov = some r) (ht : r.todo = j :: rest)
    (ho : r.ofd = some o) :
    recStep s d = some { s with nextFile := recNext s r, job := some (midJob s r j o) } := by
  unfold recStep midJob recOuts recNext
  rw [if_pos ⟨hph, hjob⟩]
  simp only [hr, ht, ho]

theorem recStep_final_eq {s : St} {d : Disk} {r : Recov}
    (hph : s.phase = .recovering) (hjob : s.job = none) (hr : s.recov = some r) (ht : r.todo = []) :
    recStep s d = some { s with nextFile := recNext s r + 1, job := some (finalJob s r) } := by
  unfold recStep finalJob recOuts recNext
  rw [if_pos ⟨hph, hjob⟩]
  simp only [hr, ht]

theorem recOuts_facts (s : St) (r : Recov) :
    (recOuts s r).length ≤ 1 ∧ (∀ o ∈ recOuts s r, o.1 = s.nextFile ∧ o.1 < recNext s r) ∧ s.nextFile ≤ recNext s r ∧
    (recOuts s r = [] ∧ r.mdb = [] ∨ recOuts s r = [((recOuts s r).head?.map (·.1) |>.getD 0, r.mdb)]) ∧
    ((recOuts s r).isEmpty = false → 0 < (recOuts s r).length) := by
  by_cases hm : r.mdb.isEmpty = true
  · have hmdb : r.mdb = [] := by simpa using hm
    simp [recOuts, recNext, hmdb]
  · simp [recOuts, recNext, hm]


/-- spawning a commit of the recovery: the job starts in the early phase with the recovery memdb as its
    (at most one) output table -/
theorem inv_rec_spawn {cfg : Cfg} {s : St} {d : Disk} (h : Inv cfg s d) {r : Recov}
    (hph : s.phase = .recovering) (hjob : s.job = none) (hr : s.recov = some r) (j' : Job) (nf' : Nat)
    (hnf : recNext s r ≤ nf') (houts : j'.outs = recOuts s r) (hrmt : j'.rmTables = [])
    (he : Holds j'.edit fun e => e.deleted = [] ∧ e.added = j'.outs.map (·.1) ∧ e.torn = false ∧
      e.snapshot = false ∧ e.jn.isSome ∧ e.sq.isSome)
    (hpc : j'.pc.early = true) (htab : j'.pc = .tCreate 0 ∧ j'.outs ≠ [] ∨ j'.outs = [] ∧ j'.pc.tablesDone = true)
    (hkind : JobKindOK { s with nextFile := nf', job := some j' } j')
    (hmk : MkJournalOK { s with nextFile := nf', job := some j' } d j')
    (hmkf : ∀ n, j'.mkJournal = some n → s.nextFile ≤ n) :
    Inv cfg { s with nextFile := nf', job := some j' } d := by
  have hrec := h.recov hph
  rw [hr] at hrec
  have hrec : RecOK cfg s d r := hrec
  have hb := h.bounds (by rw [hph]; decide)
  obtain ⟨mf, v0, v, hparts, hlv, hvl, hvok, hmono⟩ := h.disk.last
  have hnc : NoCommitYet s := by unfold NoCommitYet; rw [hjob]; trivial
  obtain ⟨f1, f2, f3, f4, f5⟩ := recOuts_facts s r
  have hnf0 : s.nextFile ≤ nf' := Nat.le_trans f3 hnf
  have hbc := early_beforeCommit hpc
  have hnr : ∀ m, j'.pc ≠ .rotRemove m := by
    intro m hm; rw [hm] at hpc; cases hpc
  have hl : s.limbo = none := hrec.idle.2.2.2
  have hfd : s.manifestFd = d.current := by
    have := hrec.mfd; unfold MfdOK at this; rw [hjob] at this
    exact this.resolve_right (fun hx => by have := hx.1; rw [hl] at this; cases this)
  have hview := hrec.view hnc
  have hsett : Settled cfg { s with nextFile := nf', job := some j' } d
      (MirrorL { s with nextFile := nf', job := some j' }) := by
    unfold Settled at hview ⊢
    exact hview.imp (fun mf1 hmf1 => ⟨hmf1.1, hmf1.2.imp (fun v1 hv1 =>
      (MirrorL.of_none (s := { s with nextFile := nf', job := some j' }) hl).2 hv1.1)⟩)
  constructor
  · exact h.disk
  · exact h.mm
  · intro _
    exact hb.of_same rfl (seqHi_le_of_not_window (not_trWindow_of_nojob hjob)
      (not_trWindow_of_bc (j := j') rfl hbc hl) (Nat.le_refl _)) hnf0 (fun hr' => by
      have : s.phase = .running := hr'
      rw [hph] at this; cases this)
  · intro hr'
    have : s.phase = .running := hr'
    rw [hph] at this; cases this
  · intro _
    refine holds_of_some (o := s.recov) hr ?_
    rw [upd_eq]
    apply RecOK.job_step (d' := d) hrec j' nf' s.live s.stJn s.stSq s.manifestFd s.manifestOpen hnf0 rfl
      (MfdOK.of_fd (j := j') rfl hnr hfd) (hrec.nums.2.1.imp (fun m hm => Nat.lt_of_lt_of_le hm hnf0))
      (fun _ => ⟨hnc, rfl, rfl, rfl, rfl, rfl⟩)
    · exact holds_of_some hlv (holds_of_some hlv (Nat.le_refl _))
    · exact hrec.rel.imp (fun v1 hv1 => hv1.2)
  · intro hc
    have : s.phase = .crashed := hc
    rw [hph] at this; cases this
  · show JobOK cfg _ d j'
    have hkc : j'.kind ≠ .compaction := by
      intro hk
      have hkk := hkind
      unfold JobKindOK at hkk
      rw [hk] at hkk
      have : s.phase = .running := hkk.1
      rw [hph] at this; cases this
    refine ⟨⟨by rw [houts]; exact f1, Or.inl hrmt⟩, hkind, ?_, ⟨?_, fun _ => ?_⟩, ?_, ?_, ?_, hmk, ?_, ?_, ?_,
      (fun hx => by rw [hbc] at hx; cases hx)⟩
    rotate_right
    · rw [holds_iff] at he
      obtain ⟨e, hee, hsh⟩ := he
      rw [hee]
      show InputsOK _ d j' e
      unfold InputsOK
      rw [if_neg hkc]
      exact ⟨hsh.1, fun _ => hsh.2.2.2.2.1, hsh.2.2.2.2.2⟩
    · unfold JobManifestOK
      rw [holds_iff] at he
      obtain ⟨e, hee, _⟩ := he
      rw [hee]
      simp only
      rw [JobManifest_early hpc]
      exact hsett
    · intro o ho
      rw [houts] at ho
      exact Nat.lt_of_lt_of_le (f2 o ho).2 hnf
    · apply holds_of_some hparts.cur
      intro k hk
      obtain ⟨vk, hvk, _, _⟩ := hparts.views k hk
      apply holds_of_some hvk
      have hbk := (hb.all mf hparts.cur k hk vk hvk).2.1
      refine ⟨fun o ho => ?_, fun n hn => Nat.le_trans hbk (hmkf n hn)⟩
      rw [houts] at ho
      rw [(f2 o ho).1]
      exact Or.inl hbk
    · rw [holds_iff] at he
      obtain ⟨e, hee, hsh⟩ := he
      rw [hee]
      exact ⟨hsh.2.1, hsh.2.2.1, hsh.2.2.2.1⟩
    · intro i o hio
      unfold OutOK
      rcases htab with ⟨h1, _⟩ | ⟨h1, _⟩
      · rw [h1]
        intro hlt; exact absurd hlt (Nat.not_lt_zero _)
      · rw [h1] at hio; simp at hio
    · unfold PcIdxOK
      rcases htab with ⟨h1, h2⟩ | ⟨_, h1⟩
      · rw [h1]
        simp only
        exact List.length_pos_iff.2 h2
      · split
        · rename_i heq; rw [heq] at h1; cases h1
        · rename_i heq; rw [heq] at h1; cases h1
        · rename_i heq; rw [heq] at h1; cases h1
        · trivial
    · rw [hlv]
      exact early_not_rm hpc
    · intro hn
      rw [hn] at he
      exact absurd he id


theorem inv_recStep {cfg : Cfg} {s : St} {d : Disk} (h : Inv cfg s d) {s' : St}
    (hs : recStep s d = some s') : Inv cfg s' d := by
  have hs0 := hs
  unfold recStep at hs0
  split at hs0
  · rename_i hg
    obtain ⟨hph, hjob⟩ := hg
    cases hr : s.recov with
    | none => rw [hr] at hs0; cases hs0
    | some r =>
      have hrec := h.recov hph
      rw [hr] at hrec
      have hrec : RecOK cfg s d r := hrec
      obtain ⟨f1, f2, f3, f4, f5⟩ := recOuts_facts s r
      cases ht : r.todo with
      | nil =>
        rw [recStep_final_eq hph hjob hr ht] at hs
        cases hs
        apply inv_rec_spawn h hph hjob hr (finalJob s r) (recNext s r + 1) (Nat.le_succ _) rfl rfl
        · exact ⟨rfl, rfl, rfl, rfl, rfl, rfl⟩
        · unfold finalJob; simp only; split <;> rfl
        · unfold finalJob
          simp only
          by_cases hemp : (recOuts s r).isEmpty = true
          · right
            rw [if_pos hemp]
            exact ⟨by simpa using hemp, rfl⟩
          · left
            rw [if_neg hemp]
            exact ⟨rfl, by simpa using hemp⟩
        · show JobKindOK _ (finalJob s r)
          unfold JobKindOK finalJob
          simp only [hph, true_and]
          apply holds_of_some (o := s.recov) hr
          refine ⟨ht, ⟨rfl, fun o ho => ?_⟩, f4, rfl, rfl⟩
          simp only [Holds]
          cases hofd : r.ofd with
          | none => rw [hofd] at ho; cases ho
          | some o' =>
            rw [hofd] at ho
            simp only [Option.toList_some, List.mem_singleton] at ho
            subst ho
            exact Nat.lt_of_lt_of_le (hrec.ofdNf o hofd) f3
        · show MkJournalOK _ d (finalJob s r)
          unfold MkJournalOK finalJob
          simp only
          refine ⟨Nat.lt_succ_self _, ?_⟩
          have hcond : (if (recOuts s r).isEmpty = true then JPc.mkJournal else JPc.tCreate 0) = JPc.mkJournal ∨
              (if (recOuts s r).isEmpty = true then JPc.mkJournal else JPc.tCreate 0).tablesDone = false := by
            split
            · exact Or.inl rfl
            · exact Or.inr rfl
          rw [if_pos hcond]
          exact fun p hp => Nat.lt_of_lt_of_le (hrec.nums.1 p hp) f3
        · intro n hn
          cases hn
          exact f3
      | cons j rest =>
        cases ho : r.ofd with
        | none =>
          rw [recStep_replay_eq hph hjob hr ht ho] at hs
          cases hs
          exact inv_recStep_replay h hph hjob hr ht ho
        | some o =>
          rw [recStep_mid_eq hph hjob hr ht ho] at hs
          cases hs
          apply inv_rec_spawn h hph hjob hr (midJob s r j o) (recNext s r) (Nat.le_refl _) rfl rfl
          · exact ⟨rfl, rfl, rfl, rfl, rfl, rfl⟩
          · unfold midJob; simp only; split <;> rfl
          · unfold midJob
            simp only
            by_cases hemp : (recOuts s r).isEmpty = true
            · right
              rw [if_pos hemp]
              exact ⟨by simpa using hemp, rfl⟩
            · left
              rw [if_neg hemp]
              exact ⟨rfl, by simpa using hemp⟩
          · show JobKindOK _ (midJob s r j o)
            unfold JobKindOK midJob
            simp only [hph, true_and]
            apply holds_of_some (o := s.recov) hr
            apply holds_of_some ho
            refine ⟨rfl, f4, ?_⟩
            rw [ht]
            exact ⟨rfl, rfl⟩
          · show MkJournalOK _ d (midJob s r j o)
            unfold MkJournalOK midJob
            trivial
          · intro n hn; cases hn
  · cases hs0

end GoLevel.Dur
