import GoLevel.Proofs.WriteProtoInv2
/-! Progress of the write-merge protocol: a leader can always move, a waiting writer always has a live
leader, no reachable state with an unanswered writer is stuck, `returned` is absorbing, a finishing leader
releases the token or hands it to exactly one writer, runs are finite. -/
namespace GoLevel.WP

theorem exists_wm (s : St) (c : CInv s) (j : Nat) (l : Thread) (hj : s.ws[j]? = some l)
    (hp : 0 < pendReply l.pc) : ∃ (i : Nat) (w : Thread), s.ws[i]? = some w ∧ w.pc = .waitMerged := by
  have := le_tot_of_mem pendReply s.ws j l hj
  obtain ⟨i, w, hi, hw⟩ := exists_of_tot_pos isWM s.ws (by have := c.replies; omega)
  refine ⟨i, w, hi, ?_⟩
  cases hpc : w.pc <;> simp [hpc, isWM] at hw ⊢

theorem exists_wa (s : St) (c : CInv s) (j : Nat) (l : Thread) (hj : s.ws[j]? = some l)
    (hp : 0 < owed l.pc) : ∃ (i : Nat) (w : Thread), s.ws[i]? = some w ∧ w.pc = .waitAck := by
  have := le_tot_of_mem owed s.ws j l hj
  obtain ⟨i, w, hi, hw⟩ := exists_of_tot_pos isWA s.ws (by have := c.acks; omega)
  refine ⟨i, w, hi, ?_⟩
  cases hpc : w.pc <;> simp [hpc, isWA] at hw ⊢

/-- a thread inside `writeLocked`/`unlockWrite` is never blocked (storage calls return) -/
theorem lead_can_step (s : St) (c : CInv s) (j : Nat) (l : Thread) (ph : Ph) (m : Nat) (o : Bool)
    (hj : s.ws[j]? = some l) (hp : l.pc = .lead ph m o) : ∃ t, Step s t := by
  cases ph with
  | flush => exact ⟨_, Step.flushOk s j l m o 0 hj hp⟩
  | merging => exact ⟨_, Step.mergeDone s j l m o hj hp⟩
  | replying =>
    obtain ⟨i, w, hi, hw⟩ := exists_wm s c j l hj (by simp [hp, pendReply])
    exact ⟨_, Step.reply s i j w l m o hj hi hp hw⟩
  | journal => exact ⟨_, Step.journalOk s j l m o hj hp⟩
  | apply => exact ⟨_, Step.apply s j l m o hj hp⟩
  | publish => exact ⟨_, Step.publish s j l m o _ hj hp rfl⟩
  | rotate => exact ⟨_, Step.rotateOk s j l m o hj hp⟩
  | acking k r =>
    cases k with
    | succ k =>
      obtain ⟨i, w, hi, hw⟩ := exists_wa s c j l hj (by simp [hp, owed])
      exact ⟨_, Step.ack s i j w l k m o r hj hi hp hw⟩
    | zero =>
      cases o with
      | false => exact ⟨_, Step.release s j l m r hj hp⟩
      | true =>
        obtain ⟨i, w, hi, hw⟩ := exists_wm s c j l hj (by simp [hp, pendReply])
        exact ⟨_, Step.handoff s i j w l m r none hj hi hp hw (Or.inl c.cfgH)⟩

/-- a writer waiting for an ack has a live leader — the one that merged it — that still owes an ack -/
theorem waitAck_has_leader (s : St) (c : CInv s) (inv : PInv s) (i : Nat) (w : Thread)
    (hi : s.ws[i]? = some w) (hp : w.pc = .waitAck) :
    ∃ (j : Nat) (l : Thread), s.ws[j]? = some l ∧ w.acc = some j ∧ s.cur = some j ∧ 0 < owed l.pc := by
  have h1 := le_tot_of_mem isWA s.ws i w hi
  rw [hp] at h1; simp [isWA] at h1
  obtain ⟨j, l, hj, hl⟩ := exists_of_tot_pos owed s.ws (by have := c.acks; omega)
  have hc := inv.holder_cur j l hj (holds_of_owed _ hl)
  have := (inv.wa_cur i w hi hp).1
  exact ⟨j, l, hj, by rw [this, hc], hc, hl⟩

/-- a writer waiting on `writeMergedC` has a live leader that still owes a reply -/
theorem waitMerged_has_leader (s : St) (c : CInv s) (i : Nat) (w : Thread)
    (hi : s.ws[i]? = some w) (hp : w.pc = .waitMerged) :
    ∃ (j : Nat) (l : Thread), s.ws[j]? = some l ∧ 0 < pendReply l.pc ∧ 0 < holds l.pc := by
  have h1 := le_tot_of_mem isWM s.ws i w hi
  rw [hp] at h1; simp [isWM] at h1
  obtain ⟨j, l, hj, hl⟩ := exists_of_tot_pos pendReply s.ws (by have := c.replies; omega)
  refine ⟨j, l, hj, hl, ?_⟩
  cases hpc : l.pc <;> simp [hpc, pendReply, holds] at hl ⊢

theorem tot_le_tot (f g : Pc → Nat) (h : ∀ p, f p ≤ g p) (ws : List Thread) : tot f ws ≤ tot g ws := by
  induction ws with
  | nil => simp [tot]
  | cons x xs ih => rw [tot_cons, tot_cons]; have := h x.pc; omega

theorem pendReply_le_holds (p : Pc) : pendReply p ≤ holds p := by
  cases p with
  | lead ph m o => cases ph <;> cases o <;> simp [pendReply, holds]
  | _ => simp [pendReply, holds]

/-- at most one writer waits on `writeMergedC` -/
theorem waitMerged_le_one (s : St) (c : CInv s) : tot isWM s.ws ≤ 1 := by
  have := tot_le_tot pendReply holds pendReply_le_holds s.ws
  have h1 := c.holders
  have h2 := c.replies
  split at h1 <;> omega

/-- deadlock freedom: some step is enabled while a writer has not returned -/
theorem no_stuck (s : St) (c : CInv s) (inv : PInv s) (i : Nat) (w : Thread) (hi : s.ws[i]? = some w)
    (hk : w.kind = .writer) (hw : ∀ r, w.pc ≠ .returned r) : ∃ t, Step s t := by
  cases hpc : w.pc with
  | returned r => exact absurd hpc (hw r)
  | idle => exact ⟨_, Step.call s i w hi hpc⟩
  | lead ph m o => exact lead_can_step s c i w ph m o hi hpc
  | hold => have := inv.loc i w hi; simp [Loc, hpc] at this; exact absurd hk this.1
  | waitAck =>
    obtain ⟨j, l, hj, _, _, hl⟩ := waitAck_has_leader s c inv i w hi hpc
    cases hlp : l.pc with
    | lead ph m o => exact lead_can_step s c j l ph m o hj hlp
    | _ => simp [hlp, owed] at hl
  | waitMerged =>
    obtain ⟨j, l, hj, hl, _⟩ := waitMerged_has_leader s c i w hi hpc
    cases hlp : l.pc with
    | lead ph m o => exact lead_can_step s c j l ph m o hj hlp
    | _ => simp [hlp, pendReply] at hl
  | selecting =>
    cases ht : s.token with
    | false => exact ⟨_, Step.lock s i w none hi hpc hk ht⟩
    | true =>
      have h1 := c.holders; rw [ht] at h1; simp at h1
      obtain ⟨j, l, hj, hl⟩ := exists_of_tot_pos holds s.ws (by omega)
      cases hlp : l.pc with
      | lead ph m o => exact lead_can_step s c j l ph m o hj hlp
      | hold =>
        have hf := inv.flags j l hj (by simp [hlp])
        cases hlk : l.kind with
        | writer => have := inv.loc j l hj; simp [Loc, hlp] at this; exact absurd hlk this.1
        | transient => exact ⟨_, Step.hRelease s j l hj hlp (Or.inl hlk)⟩
        | closer =>
          exact ⟨_, Step.retClosed s i w hi hpc (by simp [hk]) (hf.1 hlk)⟩
        | perErrH => exact ⟨_, Step.retPerErr s i w hi hpc (Or.inl hk) (hf.2 hlk)⟩
      | _ => simp [hlp, holds] at hl

/-- `returned` is absorbing: no step touches a thread that has its result -/
theorem returned_absorbing (s t : St) (h : Step s t) (i : Nat) (w : Thread) (r : Res)
    (hi : s.ws[i]? = some w) (hp : w.pc = .returned r) : t.ws[i]? = some w := by
  cases h <;> simp only [set2, List.getElem?_set] <;> grind

/-- only a thread that had no result gets one, and it gets it in a single step -/
theorem result_once (s t : St) (h : Steps s t) (i : Nat) (w : Thread) (r : Res)
    (hi : s.ws[i]? = some w) (hp : w.pc = .returned r) : t.ws[i]? = some w := by
  induction h with
  | refl => exact hi
  | tail _ h ih => exact returned_absorbing _ _ h i w r ih hp

end GoLevel.WP
