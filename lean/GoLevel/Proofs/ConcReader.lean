import GoLevel.Proofs.ConcCoverStep
/-!
# Per-reader invariants: a reader that has pinned its buffers answers like the history at its position,
whatever table collection it pins later (and for ever after it pinned one)
-/
namespace GoLevel.Conc

variable {c : UCmp}

/-- the buffer part of what reader `(m, f)` consults -/
def rBufs (σ : State) (mf : Nat × Option Nat) : List Entry := getBuf σ mf.1 ++ optBuf σ mf.2

theorem readSrc_eq (σ : State) (mf : Nat × Option Nat) (v : List Entry) :
    readSrc σ mf v = rBufs σ mf ++ v := rfl

structure RInv (c : UCmp) (σ : State) (i : Nat) (r : Reader) : Prop where
  seqLe : ∀ s, r.seq? = some s → s ≤ σ.pub
  regSnap : r.reg = true → ∃ s, r.seq? = some s ∧ (Owner.reader i, s) ∈ σ.snaps
  /-- the registration is kept until the version is pinned -/
  regNeeded : r.seq? ≠ none → r.ver? = none → r.reg = true
  memsSeq : r.mems? ≠ none → r.seq? ≠ none
  verMems : r.ver? ≠ none → r.mems? ≠ none
  /-- buffers the reader did not pin hold nothing it may see -/
  rbuf : ∀ s mf, r.seq? = some s → r.mems? = some mf →
      (σ.mem = mf.1 ∨ ∀ e ∈ memBuf σ, s < e.seq) ∧
      (∀ g, σ.frozen = some g → g = mf.1 ∨ some g = mf.2 ∨ ∀ e ∈ getBuf σ g, s < e.seq)
  intact : ∀ s mf, r.seq? = some s → r.mems? = some mf → Intact σ.hist (rBufs σ mf) s
  /-- the read is right with the pinned table collection, or with the current one if none is pinned yet -/
  rc : ∀ s mf, r.seq? = some s → r.mems? = some mf → ∀ k,
      view c (rBufs σ mf ++ r.ver?.getD σ.tabs) k s = view c σ.hist k s
  results : ∀ kv ∈ r.results, ∃ s, r.seq? = some s ∧ kv.2 = view c σ.hist kv.1 s
  /-- the pinned frozen buffer is not the write buffer (it never grows again) -/
  fOld : ∀ mf f, r.mems? = some mf → mf.2 = some f → f < σ.mem
  /-- the pinned frozen buffer is older than the pinned write buffer -/
  rorder : ∀ mf, r.mems? = some mf → ∀ a ∈ optBuf σ mf.2, ∀ b ∈ getBuf σ mf.1, a.seq < b.seq
  /-- what the reader may see of its pinned tables is history -/
  verHist : ∀ s v, r.seq? = some s → r.ver? = some v → ∀ e ∈ v, e.seq ≤ s → e ∈ σ.hist

def Readers (c : UCmp) (σ : State) : Prop := ∀ i r, σ.readers[i]? = some r → RInv c σ i r

theorem readers_init : Readers c init := by
  intro i r h; simp [init] at h

/-- a reader that has not started -/
theorem rinv_fresh (σ : State) (i : Nat) : RInv c σ i {} := by
  constructor <;> simp

theorem rBufs_sub {σ : State} (hb : Basic σ) (mf : Nat × Option Nat) : ∀ e ∈ rBufs σ mf, e ∈ σ.hist := by
  intro e he
  rcases List.mem_append.1 he with he | he
  · exact hb.bufSub _ e he
  · exact hb.optBuf_hist _ e he

/-- generic: the state moves on without touching the tables; whatever is added to the history or to a
buffer is above the published position; the reader's registration stays -/
theorem rinv_grow {σ σ' : State} {i : Nat} {r : Reader} (hb : Basic σ)
    (hH : ∃ ext, σ'.hist = σ.hist ++ ext ∧ ∀ e ∈ ext, σ.pub < e.seq)
    (hBuf0 : ∀ id, ∃ ext, getBuf σ' id = getBuf σ id ++ ext ∧
      (∀ e ∈ ext, σ.pub < e.seq ∧ ∀ x ∈ σ.hist, x.seq < e.seq) ∧ (id ≠ σ.mem → ext = []))
    (hmem : σ'.mem = σ.mem) (hfr : σ'.frozen = σ.frozen ∨ σ'.frozen = none)
    (htabs : r.ver? = none → σ'.tabs = σ.tabs) (hpub : σ.pub ≤ σ'.pub)
    (hsn : ∀ s, (Owner.reader i, s) ∈ σ.snaps → (Owner.reader i, s) ∈ σ'.snaps)
    (hr : RInv c σ i r) : RInv c σ' i r := by
  obtain ⟨ext, hH1, hH2⟩ := hH
  have hBuf : ∀ id, ∃ ext, getBuf σ' id = getBuf σ id ++ ext ∧ ∀ e ∈ ext, σ.pub < e.seq := by
    intro id
    obtain ⟨e1, h1, h2, _⟩ := hBuf0 id
    exact ⟨e1, h1, fun e he => (h2 e he).1⟩
  have hOpt : ∀ f, ∃ ext, optBuf σ' f = optBuf σ f ++ ext ∧ ∀ e ∈ ext, σ.pub < e.seq := by
    intro f
    cases f with
    | none => exact ⟨[], rfl, by simp⟩
    | some f => exact hBuf f
  have hleB : ∀ s mf, s ≤ σ.pub → leF s (rBufs σ' mf) = leF s (rBufs σ mf) := by
    intro s mf hs
    obtain ⟨e1, h1, h1'⟩ := hBuf mf.1
    obtain ⟨e2, h2, h2'⟩ := hOpt mf.2
    simp only [rBufs, h1, h2, leF_append]
    rw [leF_above (E := e1) (fun e he => by have := h1' e he; omega),
        leF_above (E := e2) (fun e he => by have := h2' e he; omega)]
    simp
  have hleH : ∀ s, s ≤ σ.pub → leF s σ'.hist = leF s σ.hist := by
    intro s hs
    rw [hH1, leF_append_above (fun e he => by have := hH2 e he; omega)]
  have hviewH : ∀ k s, s ≤ σ.pub → view c σ'.hist k s = view c σ.hist k s :=
    fun k s hs => view_eq_of_leF (hleH s hs)
  constructor
  · intro s hs; exact Nat.le_trans (hr.seqLe s hs) hpub
  · intro hreg
    obtain ⟨s, h1, h2⟩ := hr.regSnap hreg
    exact ⟨s, h1, hsn s h2⟩
  · exact hr.regNeeded
  · exact hr.memsSeq
  · exact hr.verMems
  · intro s mf hs hm
    have hsp := hr.seqLe s hs
    obtain ⟨a, b⟩ := hr.rbuf s mf hs hm
    constructor
    · rw [hmem]
      rcases a with a | a
      · exact Or.inl a
      · refine Or.inr (fun e he => ?_)
        obtain ⟨e1, h1, h1'⟩ := hBuf σ.mem
        have he' : e ∈ getBuf σ' σ.mem := by
          have : e ∈ memBuf σ' := he
          simpa only [memBuf, hmem] using this
        rw [h1] at he'
        rcases List.mem_append.1 he' with he' | he'
        · exact a e he'
        · have := h1' e he'; omega
    · intro g hg
      rcases hfr with hfr | hfr
      · rw [hfr] at hg
        rcases b g hg with b | b | b
        · exact Or.inl b
        · exact Or.inr (Or.inl b)
        · refine Or.inr (Or.inr (fun e he => ?_))
          obtain ⟨e1, h1, h1'⟩ := hBuf g
          rw [h1] at he
          rcases List.mem_append.1 he with he | he
          · exact b e he
          · have := h1' e he; omega
      · rw [hfr] at hg; cases hg
  · intro s mf hs hm h hh hle
    have hsp := hr.seqLe s hs
    obtain ⟨e1, h1, h1'⟩ := hBuf mf.1
    obtain ⟨e2, h2, h2'⟩ := hOpt mf.2
    have hsub : ∀ x, x ∈ rBufs σ mf → x ∈ rBufs σ' mf := by
      intro x hx
      simp only [rBufs, h1, h2, List.mem_append] at hx ⊢
      rcases hx with hx | hx
      · exact Or.inl (Or.inl hx)
      · exact Or.inr (Or.inl hx)
    have hnew : ∀ x, x ∈ rBufs σ' mf → x ∈ rBufs σ mf ∨ σ.pub < x.seq := by
      intro x hx
      simp only [rBufs, h1, h2, List.mem_append] at hx ⊢
      rcases hx with (hx | hx) | (hx | hx)
      · exact Or.inl (Or.inl hx)
      · exact Or.inr (h1' x hx)
      · exact Or.inl (Or.inr hx)
      · exact Or.inr (h2' x hx)
    rw [hH1] at hh
    rcases List.mem_append.1 hh with hh | hh
    · rcases hr.intact s mf hs hm h hh hle with h3 | h3
      · exact Or.inl (hsub h h3)
      · refine Or.inr (fun x hx => ?_)
        rcases hnew x hx with hx | hx
        · exact h3 x hx
        · omega
    · have := hH2 h hh; omega
  · intro s mf hs hm k
    have hsp := hr.seqLe s hs
    have h0 := hr.rc s mf hs hm k
    rw [hviewH k s hsp, ← h0]
    apply view_eq_of_leF
    rw [leF_append, leF_append, hleB s mf hsp]
    cases hv : r.ver? with
    | none => simp only [Option.getD_none]; rw [htabs hv]
    | some v => simp only [Option.getD_some]
  · intro kv hkv
    obtain ⟨s, h1, h2⟩ := hr.results kv hkv
    exact ⟨s, h1, by rw [h2, hviewH _ s (hr.seqLe s h1)]⟩
  · intro mf f hm hf; rw [hmem]; exact hr.fOld mf f hm hf
  · intro mf hm a ha b hb'
    cases hf : mf.2 with
    | none => rw [hf] at ha; cases ha
    | some f =>
      have hlt := hr.fOld mf f hm hf
      obtain ⟨e1, h1, _, h3⟩ := hBuf0 f
      have he1 : e1 = [] := h3 (by omega)
      have ha' : a ∈ optBuf σ mf.2 := by
        rw [hf] at ha ⊢
        have : a ∈ getBuf σ' f := ha
        rw [h1, he1, List.append_nil] at this
        exact this
      obtain ⟨e2, h4, h5, _⟩ := hBuf0 mf.1
      rw [h4] at hb'
      rcases List.mem_append.1 hb' with hb' | hb'
      · exact hr.rorder mf hm a ha' b hb'
      · exact (h5 b hb').2 a (hb.optBuf_hist _ a ha')
  · intro s v hs hv e he hle
    rw [hH1]; exact List.mem_append_left _ (hr.verHist s v hs hv e he hle)

/-- nothing but `pub`, `snaps` and reader-irrelevant fields changed -/
theorem rinv_frame {σ σ' : State} {i : Nat} {r : Reader} (hb : Basic σ)
    (hh : σ'.hist = σ.hist) (hbufs : σ'.bufs = σ.bufs) (hmem : σ'.mem = σ.mem)
    (hfr : σ'.frozen = σ.frozen ∨ σ'.frozen = none) (htabs : σ'.tabs = σ.tabs) (hpub : σ.pub ≤ σ'.pub)
    (hsn : ∀ s, (Owner.reader i, s) ∈ σ.snaps → (Owner.reader i, s) ∈ σ'.snaps)
    (hr : RInv c σ i r) : RInv c σ' i r := by
  apply rinv_grow hb ⟨[], by rw [hh, List.append_nil], by simp⟩ _ hmem hfr (fun _ => htabs) hpub hsn hr
  intro id
  exact ⟨[], by simp [getBuf, hbufs], by simp, fun _ => rfl⟩

end GoLevel.Conc
