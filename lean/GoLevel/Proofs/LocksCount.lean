import GoLevel.Model.Locks
/-! Ownership accounting for the blocking resources: in the repaired configuration every held resource has
exactly one owner (a thread at a program counter that holds it, the open transaction, `compWriteLocking`,
`Close`, a committing compaction). -/
namespace GoLevel.Locks

theorem tot_cons (f : Pc → Nat) (x : Pc) (xs : List Pc) : tot f (x :: xs) = f x + tot f xs := by
  simp [tot]

theorem tot_set (f : Pc → Nat) (ws : List Pc) (i : Nat) (old new : Pc) (h : ws[i]? = some old) :
    tot f (ws.set i new) + f old = tot f ws + f new := by
  induction ws generalizing i with
  | nil => simp at h
  | cons x xs ih =>
    cases i with
    | zero =>
      simp at h; subst h
      rw [List.set_cons_zero, tot_cons, tot_cons]; omega
    | succ n =>
      simp at h
      have := ih n h
      rw [List.set_cons_succ, tot_cons, tot_cons]; omega

theorem le_tot (f : Pc → Nat) (ws : List Pc) (i : Nat) (w : Pc) (h : ws[i]? = some w) : f w ≤ tot f ws := by
  induction ws generalizing i with
  | nil => simp at h
  | cons x xs ih =>
    cases i with
    | zero => simp at h; subst h; rw [tot_cons]; omega
    | succ n =>
      simp at h
      have := ih n h
      rw [tot_cons]; omega

theorem exists_of_tot_pos (f : Pc → Nat) (ws : List Pc) (h : 0 < tot f ws) :
    ∃ (i : Nat) (w : Pc), ws[i]? = some w ∧ 0 < f w := by
  induction ws with
  | nil => simp [tot] at h
  | cons x xs ih =>
    rw [tot_cons] at h
    by_cases hx : 0 < f x
    · exact ⟨0, x, by simp, hx⟩
    · obtain ⟨i, w, hi, hw⟩ := ih (by omega)
      exact ⟨i + 1, w, by simpa using hi, hw⟩

theorem tot_replicate_idle (f : Pc → Nat) (n : Nat) (h : f .idle = 0) : tot f (List.replicate n .idle) = 0 := by
  induction n with
  | zero => simp [tot]
  | succ n ih => rw [List.replicate_succ, tot_cons, ih, h]

/-- the three sums for one replaced thread -/
theorem tot_set3 (ws : List Pc) (i : Nat) (old new : Pc) (h : ws[i]? = some old) :
    (tot tokW (ws.set i new) + tokW old = tot tokW ws + tokW new) ∧
    (tot clkW (ws.set i new) + clkW old = tot clkW ws + clkW new) ∧
    (tot trlkW (ws.set i new) + trlkW old = tot trlkW ws + trlkW new) :=
  ⟨tot_set _ _ _ _ _ h, tot_set _ _ _ _ _ h, tot_set _ _ _ _ _ h⟩

theorem tot_set_eq (f : Pc → Nat) (ws : List Pc) (i : Nat) (old new : Pc) (h : ws[i]? = some old) :
    tot f (ws.set i new) = tot f ws + f new - f old := by
  have := tot_set f ws i old new h; omega

theorem b2n_le (b : Bool) : b2n b ≤ 1 := by cases b <;> simp [b2n]
@[simp] theorem b2n_true : b2n true = 1 := rfl
@[simp] theorem b2n_false : b2n false = 0 := rfl
@[simp] theorem bgClk_run (w : Option Nat) (ph : BPh) : bgClk (.run w ph) = bphClk ph := rfl
@[simp] theorem bgClk_idle : bgClk .idle = 0 := rfl
@[simp] theorem bgClk_exited : bgClk .exited = 0 := rfl
theorem clearW_run (w : Option Nat) (ph : BPh) (i : Nat) : ∃ w', clearW (.run w ph) i = .run w' ph := by
  cases w with
  | none => exact ⟨none, rfl⟩
  | some j =>
    unfold clearW
    by_cases h : j = i
    · exact ⟨none, by simp [h]⟩
    · exact ⟨some j, by simp [h]⟩

@[simp] theorem clearW_idle (i : Nat) : clearW .idle i = .idle := rfl
@[simp] theorem clearW_exited (i : Nat) : clearW .exited i = .exited := rfl

@[simp] theorem clearW_eq_exited (x : Bg) (i : Nat) : clearW x i = .exited ↔ x = .exited := by
  unfold clearW; split
  · split <;> simp
  · rfl

@[simp] theorem bgClk_clearW (x : Bg) (i : Nat) : bgClk (clearW x i) = bgClk x := by
  unfold clearW; split
  · split <;> rfl
  · rfl

theorem tot_ackWs (f : Pc → Nat) (hf : ∀ b site lg, f (.cwAck b site lg) = f (onOk site lg))
    (ws : List Pc) (w : Option Nat) (b : Bool) : tot f (ackWs ws w b) = tot f ws := by
  unfold ackWs
  split
  · split
    · rename_i i _ b' site lg hw
      split
      · have := tot_set f ws i _ (onOk site lg) hw
        have := hf b' site lg
        omega
      · rfl
    · rfl
  · rfl

@[simp] theorem tot_ackWs_tok (ws : List Pc) (w : Option Nat) (b : Bool) :
    tot tokW (ackWs ws w b) = tot tokW ws :=
  tot_ackWs _ (by intro b site lg; cases site <;> rfl) ws w b
@[simp] theorem tot_ackWs_clk (ws : List Pc) (w : Option Nat) (b : Bool) :
    tot clkW (ackWs ws w b) = tot clkW ws :=
  tot_ackWs _ (by intro b site lg; cases site <;> rfl) ws w b
@[simp] theorem tot_ackWs_trlk (ws : List Pc) (w : Option Nat) (b : Bool) :
    tot trlkW (ackWs ws w b) = tot trlkW ws :=
  tot_ackWs _ (by intro b site lg; cases site <;> rfl) ws w b

@[simp] theorem bgClk_parked : bgClk .parked = 0 := rfl
@[simp] theorem clearW_parked (i : Nat) : clearW .parked i = .parked := rfl

theorem afterCmd_cases (cfg : Cfg) (s : St) (b : Bool) : afterCmd cfg s b = .idle ∨ afterCmd cfg s b = .parked := by
  unfold afterCmd; split <;> simp
@[simp] theorem bgClk_afterCmd (cfg : Cfg) (s : St) (b : Bool) : bgClk (afterCmd cfg s b) = 0 := by
  rcases afterCmd_cases cfg s b with h | h <;> rw [h] <;> rfl

/-- threads between the two `select`s of `SetReadOnly` -/
def srW : Pc → Nat | .srSet => 1 | _ => 0

/-- the token is in `writeLockC` iff exactly one owner claims it -/
def TokE (s : St) : Prop := tot tokW s.ws + b2n s.trOpen + b2n s.ehTok + b2n s.closeTok = b2n s.tok
/-- if the token is in `writeLockC`, somebody claims it -/
def TokW (s : St) : Prop := b2n s.tok ≤ tot tokW s.ws + b2n s.trOpen + b2n s.ehTok + b2n s.closeTok
def ClkI (s : St) : Prop := tot clkW s.ws + bgClk s.mc + bgClk s.tc = b2n s.clk
def TrlkI (s : St) : Prop := tot trlkW s.ws = b2n s.trlk

/-- every resource is held by exactly its owners -/
structure RInv (s : St) : Prop where
  tokI : tot tokW s.ws + b2n s.trOpen + b2n s.ehTok + b2n s.closeTok = b2n s.tok
  clkI : tot clkW s.ws + bgClk s.mc + bgClk s.tc = b2n s.clk
  trlkI : tot trlkW s.ws = b2n s.trlk

/-- `compCommitLk` and `tr.lk` are held by exactly their owners; a token in `writeLockC` has an owner (both
take-backs of `compWriteLocking` are blind: after `Close` has begun an owner can find its token gone) -/
structure RInvW (s : St) : Prop where
  tokI : b2n s.tok ≤ tot tokW s.ws + b2n s.trOpen + b2n s.ehTok + b2n s.closeTok
  clkI : tot clkW s.ws + bgClk s.mc + bgClk s.tc = b2n s.clk
  trlkI : tot trlkW s.ws = b2n s.trlk

theorem RInv.weak {s : St} (h : RInv s) : RInvW s := ⟨by have := h.tokI; omega, h.clkI, h.trlkI⟩

end GoLevel.Locks
