import GoLevel.Proofs.SessionOps2
/-! `session.setVersion` installing a version: the simulation after `v.incref()` and the delta (C07). -/
namespace GoLevel.Session
open GoLevel GoLevel.RefLoop

theorem envInstalled_T (G : EnvF) (s : Slot) (k : Nat) : (envInstalled G s).T k = (G.push s).T k :=
  EnvF.T_congr (G := G.push s) (G' := envInstalled G s) rfl k
theorem envInstalled_L (G : EnvF) (s : Slot) (k : Nat) : (envInstalled G s).L k = (G.push s).L k :=
  EnvF.L_congr (G := G.push s) (G' := envInstalled G s) rfl k
theorem envInstalled_inst (G : EnvF) (s : Slot) (k : Nat) : (envInstalled G s).inst k ↔ (G.push s).inst k :=
  EnvF.inst_congr (G := G.push s) (G' := envInstalled G s) rfl k
theorem envInstalled_up (G : EnvF) (s : Slot) (k : Nat) : (envInstalled G s).up k = (G.push s).up k :=
  EnvF.up_congr (G := G.push s) (G' := envInstalled G s) rfl k

/-- The session after `nv.incref()`, the delta and `s.stVersion = nv`, before the old version is released. -/
def installed (s : Sess) (mf : Bool) (nv : Version) : Sess :=
  { s with objs := s.objs ++ [⟨s.nt, nv.nums, 0⟩], cur := s.nt, lsm := nv, nt := s.nt + 1, manifest := mf }

theorem sim_installed {y : Sys} {G : EnvF} {U : List Nat} (h : Sim y G U) (hc : y.sess.closed = false)
    {nv : Version} {L : List Nat} {din : Delta} {mf : Bool} {l1 : State} {rm1 : List Nat}
    (ok1 : LoopOK l1 (envInstalled G (.inst nv.nums L din)) (y.requests ++ rm1))
    (le1 : y.loop.next ≤ l1.next)
    (sf1 : SafeF (envInstalled G (.inst nv.nums L din)) l1.next rm1)
    (hview : L = if mf then nv.nums else []) :
    Sim ⟨installed y.sess mf nv, l1, y.requests ++ rm1⟩ (envInstalled G (.inst nv.nums L din))
      ((U ++ nv.nums).filter (fun f => decide (f ∉ rm1))) := by
  have hN : G.N = y.sess.nt := by have := h.nt; rw [hc] at this; simpa using this
  obtain ⟨hdn, hcur⟩ := h.cur hc
  have hNpos := h.N_pos
  have hlt : ∀ o ∈ y.sess.objs, o.id < G.N := fun o ho => EnvF.inst_lt (h.objs o ho).1
  have hnr : G.N ∉ G.rel := fun hm => by have := EnvF.inst_lt (h.ok.inv.wf.rel _ hm).1; omega
  refine ⟨ok1, ?_, Nat.succ_pos _, ?_, ?_, ?_, ?_, ?_, ?_, ?_, ?_, ?_, ?_⟩
  · show (G.vs ++ [_]).length = (y.sess.nt + 1) + _
    simp only [List.length_append, List.length_singleton]
    have : G.vs.length = y.sess.nt := hN
    rw [this]; simp [installed, hc]
  · exact hc.symm
  · intro _
    refine ⟨hN, ?_⟩
    show (G.vs ++ [_]).length ≤ (envInstalled G _).up (G.N + 1)
    rw [EnvF.up_of_ge (by show (G.vs ++ [_]).length ≤ _; simp [EnvF.N])]
    simp [EnvF.N]
  · show ((y.sess.objs ++ [(⟨y.sess.nt, nv.nums, 0⟩ : VObj)]).map VObj.id).Nodup
    rw [List.map_append, List.nodup_append]
    refine ⟨h.idsnd, by simp, ?_⟩
    intro a ha b hb
    obtain ⟨o, ho, rfl⟩ := List.mem_map.mp ha
    simp only [List.map_cons, List.map_nil, List.mem_singleton] at hb
    have := hlt o ho
    omega
  · intro o ho
    rcases List.mem_append.mp ho with ho | ho
    · obtain ⟨h1, h2⟩ := h.objs o ho
      exact ⟨(envInstalled_inst _ _ _).mpr ((EnvF.push_inst_lt (hlt o ho)).mpr h1), h2⟩
    · simp only [List.mem_singleton] at ho
      subst ho
      refine ⟨(envInstalled_inst _ _ _).mpr ?_, by rw [← hN]; exact hnr⟩
      rw [← hN]; exact EnvF.push_inst_eq.mpr rfl
  · intro _ k h1 h2
    rcases EnvF.push_inst_cases ((envInstalled_inst _ _ _).mp h1) with ⟨h3, h4⟩ | ⟨h3, _⟩
    · obtain ⟨o, ho, rfl⟩ := h.objs' hc k h4 h2
      exact ⟨o, List.mem_append_left _ ho, rfl⟩
    · exact ⟨_, List.mem_append_right _ List.mem_cons_self, by rw [h3, hN]⟩
  · intro o ho
    rcases List.mem_append.mp ho with ho | ho
    · rw [h.files o ho, envInstalled_T, EnvF.push_T_lt (hlt o ho)]
    · simp only [List.mem_singleton] at ho
      subst ho
      rw [envInstalled_T]
      show nv.nums = (G.push _).T y.sess.nt
      rw [← hN, EnvF.push_T_eq]; rfl
  · intro _
    show nv.nums = (envInstalled G _).T y.sess.nt
    rw [envInstalled_T, ← hN, EnvF.push_T_eq]; rfl
  · intro _
    show (envInstalled G _).L y.sess.nt = if mf then (envInstalled G _).T y.sess.nt else []
    rw [envInstalled_L, envInstalled_T, ← hN, EnvF.push_L_eq, EnvF.push_T_eq, hview]; rfl
  · intro _
    refine used_step (new := nv.nums) (h.used hc) (fun k hik hal => ?_) sf1 rfl
    rcases EnvF.push_inst_cases ((envInstalled_inst _ _ _).mp hik) with ⟨h3, h4⟩ | ⟨h3, _⟩
    · left
      refine ⟨h4, ?_, by rw [envInstalled_T, EnvF.push_T_lt h3]⟩
      rcases hal with h5 | h5
      · exact Or.inl h5
      · right
        have h6 : (envInstalled G (.inst nv.nums L din)).cb l1.next = (G.push (.inst nv.nums L din)).up (min G.N l1.next) :=
          envInstalled_up _ _ _
        have h7 : G.cb y.loop.next < G.N := (cb_pushF h.ok.inv (s := .inst nv.nums L din) hNpos _).2
        have h8 : (G.push (.inst nv.nums L din)).up (min G.dn y.loop.next) = G.cb y.loop.next :=
          (cb_pushF h.ok.inv (s := .inst nv.nums L din) hNpos _).1
        have hdnN := h.ok.inv.wf.dn_lt hNpos
        have h9 := EnvF.up_mono (G.push (.inst nv.nums L din)) (show min G.dn y.loop.next ≤ min G.N l1.next by omega)
        rw [h6] at h5; omega
    · right
      intro f hf
      rw [envInstalled_T, h3, EnvF.push_T_eq] at hf; exact hf
  · intro hc'; rw [show (installed y.sess mf nv).closed = y.sess.closed from rfl, hc] at hc'; cases hc'

theorem filter_filter_notin (l rm1 rm2 : List Nat) :
    (l.filter (fun f => decide (f ∉ rm1))).filter (fun f => decide (f ∉ rm2)) =
    l.filter (fun f => decide (f ∉ rm1 ++ rm2)) := by
  rw [List.filter_filter]
  apply List.filter_congr
  intro f _
  simp [List.mem_append, not_or, Bool.and_comm]

/-- `session.setVersion(r', nv)` as a whole. -/
theorem sim_setVersion {y : Sys} {G : EnvF} {U : List Nat} (h : Sim y G U) (hc : y.sess.closed = false)
    {nv : Version} {r' : Edit} {L : List Nat} {mf : Bool}
    (hnd : nv.nums.Nodup) (hnl : L.Nodup) (hsub : ∀ f ∈ L, f ∈ nv.nums)
    (hmono : ∀ f ∈ nv.nums, ∀ j l, j < l → G.inst l → G.alive y.loop.next j → f ∈ G.T j → f ∈ G.T l)
    (hleft : ∀ f ∈ nv.nums, ∀ j, G.alive y.loop.next j → f ∈ G.T j → f ∈ L)
    (hex : NetExact (G.L G.dn) (mkDelta r') L) (hkeep : ∀ f, f ∈ G.T G.dn → f ∉ G.L G.dn → f ∈ L)
    (hview : L = if mf then nv.nums else []) :
    ∃ l' rm G', deliver y.loop (({ y.sess with nt := y.sess.nt + 1, manifest := mf }).setVersion
          (some r') y.sess.nt nv).2 = some (l', rm) ∧
      Sim ⟨(({ y.sess with nt := y.sess.nt + 1, manifest := mf }).setVersion (some r') y.sess.nt nv).1, l',
          y.requests ++ rm⟩ G' ((U ++ nv.nums).filter (fun f => decide (f ∉ rm))) ∧
      SafeF G' l'.next rm := by
  have hGc : G.closing = false := by rw [h.closing]; exact hc
  have hN : G.N = y.sess.nt := by have := h.nt; rw [hc] at this; simpa using this
  obtain ⟨hdn, hcur⟩ := h.cur hc
  obtain ⟨l1, rm1, e1, ok1, le1, sf1⟩ :=
    install_chain h.ok hGc h.N_pos hcur hnd hnl hsub hmono hleft hex hkeep
  have hs1 := sim_installed h hc ok1 le1 sf1 hview
  -- the old current version's object
  have hdi : G.inst G.dn := by rcases h.ok.inv.wf.dn with h1 | h1; have := h.N_pos; omega; exact h1
  have hdnr : G.dn ∉ G.rel := fun hm => by
    rcases (h.ok.inv.wf.rel _ hm).2 with h1 | ⟨h1, _⟩
    · omega
    · rw [hGc] at h1; cases h1
  obtain ⟨o, ho, hoid⟩ := h.objs' hc G.dn hdi hdnr
  have ho1 : o ∈ (installed y.sess mf nv).objs := List.mem_append_left _ ho
  have hobj : (installed y.sess mf nv).obj y.sess.cur = some o := by
    rw [← hdn, ← hoid]; exact obj_eq hs1.idsnd ho1
  have hsv : ({ y.sess with nt := y.sess.nt + 1, manifest := mf }).setVersion (some r') y.sess.nt nv =
      (((installed y.sess mf nv).drop y.sess.cur).1,
        [.ref y.sess.nt nv.nums] ++ [.delta y.sess.cur (mkDelta r')] ++ ((installed y.sess mf nv).drop y.sess.cur).2) := rfl
  rw [hsv, drop_eq hobj]
  have hne : ¬ (y.sess.cur = (installed y.sess mf nv).cur ∧ ¬ (installed y.sess mf nv).closed) := by
    intro hh
    have : y.sess.cur = y.sess.nt := hh.1
    have := h.ok.inv.wf.dn_lt h.N_pos
    omega
  simp only [hne, if_false, Nat.add_zero]
  have emsgs : [Msg.ref y.sess.nt nv.nums] ++ [Msg.delta y.sess.cur (mkDelta r')] =
      [.ref G.N nv.nums, .delta G.dn (mkDelta r')] := by rw [hN, hdn]; rfl
  by_cases hp : o.pins > 0
  · simp only [hp, if_true, List.append_nil]
    rw [emsgs]
    exact ⟨l1, rm1, _, e1, hs1, sf1⟩
  · simp only [hp, if_false]
    rw [emsgs]
    have hk : o.id < (envInstalled G (.inst nv.nums L (mkDelta r'))).dn := by
      rw [hoid]; exact h.ok.inv.wf.dn_lt h.N_pos
    obtain ⟨l2, rm2, e2, hs2, sf2⟩ := sim_release hs1 ho1 (Or.inl hk)
    rw [hoid, hdn] at e2 hs2 sf2
    rw [filter_filter_notin, List.append_assoc] at hs2
    refine ⟨l2, rm1 ++ rm2, _, run_append e1 e2, hs2, ?_⟩
    refine safeF_append ?_ sf2
    obtain ⟨S', rm', e3, ok3, le3, sf3⟩ := single_chain hs1.ok (m := .rel y.sess.cur o.files)
      (G' := { envInstalled G (.inst nv.nums L (mkDelta r')) with rel := y.sess.cur :: G.rel }) (by
        have := EnvStepF.rel (nx := l1.next) (envInstalled G (.inst nv.nums L (mkDelta r'))) o.id
          (hs1.objs o ho1).1 hk (hs1.objs o ho1).2
        rw [← hs1.files o ho1, hoid, hdn] at this
        exact this)
    have : l2 = S' := by
      have h5 : run l1 [Msg.rel y.sess.cur o.files] = some (l2, rm2) := e2
      rw [e3] at h5
      simp only [Option.some.injEq, Prod.mk.injEq] at h5
      exact h5.1.symm
    subst this
    exact safeF_shrink sf1 rfl (fun _ hk => List.mem_cons_of_mem _ hk) (fun _ => rfl)
      (EnvF.cb_mono _ le3)

end GoLevel.Session
