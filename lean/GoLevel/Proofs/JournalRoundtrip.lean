import GoLevel.Proofs.JournalReader
/-! Round trip: the reader run over the encoding of a record (followed by anything) delivers the record. -/
namespace GoLevel.Journal
open GoLevel.Gen (journalBlockSize journalHeaderSize fullChunkType firstChunkType middleChunkType lastChunkType)

local notation "blockSize" => journalBlockSize
local notation "headerSize" => journalHeaderSize

theorem pad_blockSize : pad blockSize = ([], 0) := by
  have := headerSize_eq
  unfold pad; rw [if_pos (by omega)]; simp

theorem pad_fit {pos : Nat} (h : pos + headerSize ≤ blockSize) : pad pos = ([], pos) := by
  unfold pad; rw [if_neg (by omega)]

theorem pad_pos_le (pos : Nat) (_h : pos ≤ blockSize) : (pad pos).2 + headerSize ≤ blockSize := by
  have := headerSize_lt_blockSize
  unfold pad; split <;> simp <;> omega

theorem nextChunk_boundary_chunk (s c first f l : Bool) (p more : Bytes)
    (hfit : headerSize + p.length ≤ blockSize) :
    nextChunk s c first ⟨blockSize, chunk (chunkType f l) p ++ more⟩ =
      if first ∧ f = false then .skip (p.length + headerSize) .orphan ⟨headerSize + p.length, more⟩
      else .ok p l ⟨headerSize + p.length, more⟩ := by
  have := nextChunk_pad_chunk s c first blockSize f l p more (Nat.le_refl _)
    (by rw [pad_blockSize]; simpa using hfit)
  simpa [pad_blockSize] using this

theorem restChunks_pos (rec : Bytes) : headerSize ≤ (restChunks rec).2 ∧ (restChunks rec).2 ≤ blockSize := by
  have := headerSize_lt_blockSize
  fun_induction restChunks rec with
  | case1 rec h => simp only; omega
  | case2 rec h r ih => exact ih

theorem emitChunks_pos (pos : Nat) (rec : Bytes) (h : pos + headerSize ≤ blockSize) :
    headerSize ≤ (emitChunks pos rec).2 ∧ (emitChunks pos rec).2 ≤ blockSize := by
  unfold emitChunks
  simp only
  split
  · simp only; omega
  · exact restChunks_pos _

theorem emitRecord_pos (pos : Nat) (rec : Bytes) (h : pos ≤ blockSize) :
    headerSize ≤ (emitRecord pos rec).2 ∧ (emitRecord pos rec).2 ≤ blockSize := by
  unfold emitRecord
  exact emitChunks_pos _ _ (pad_pos_le pos h)

theorem endPos_le (pos : Nat) (rs : List Bytes) (h : pos ≤ blockSize) : endPos pos rs ≤ blockSize := by
  induction rs generalizing pos with
  | nil => exact h
  | cons r rs ih => exact ih _ (emitRecord_pos pos r h).2

/-- the chunks after the first one complete the record in progress -/
theorem decodeLoop_restChunks (s c : Bool) (rec acc more : Bytes) :
    decodeLoop s c ⟨blockSize, (restChunks rec).1 ++ more⟩ (some acc) =
      (decodeLoop s c ⟨(restChunks rec).2, more⟩ none).cons (.record (acc ++ rec)) := by
  have hlt := headerSize_lt_blockSize
  fun_induction restChunks rec generalizing acc with
  | case1 rec h =>
    have hn := nextChunk_boundary_chunk s c false false true rec more (by omega)
    rw [decodeLoop_ok (cur := some acc) (by simpa using hn)]
    simp
  | case2 rec h r ih =>
    have hlen : (rec.take (blockSize - headerSize)).length = blockSize - headerSize := by
      simp only [List.length_take]; omega
    have hn := nextChunk_boundary_chunk s c false false false (rec.take (blockSize - headerSize))
      (r.1 ++ more) (by omega)
    simp only [List.append_assoc]
    rw [decodeLoop_ok (cur := some acc) (by simpa using hn)]
    simp only [Bool.false_eq_true, if_false, Option.getD_some]
    rw [show headerSize + min (blockSize - headerSize) rec.length = blockSize by omega, ih]
    simp [List.append_assoc, r]

/-- a whole record, starting anywhere in a block, whatever follows it -/
theorem decodeLoop_emitRecord (s c : Bool) (pos : Nat) (rec more : Bytes) (hpos : pos ≤ blockSize) :
    decodeLoop s c ⟨pos, (emitRecord pos rec).1 ++ more⟩ none =
      (decodeLoop s c ⟨(emitRecord pos rec).2, more⟩ none).cons (.record rec) := by
  have hlt := headerSize_lt_blockSize
  have hpad := pad_pos_le pos hpos
  unfold emitRecord emitChunks
  simp only
  split
  · rename_i h
    have hn := nextChunk_pad_chunk s c true pos true true rec more hpos (by omega)
    simp only [List.append_assoc] at hn ⊢
    rw [decodeLoop_ok (cur := none) (by simpa using hn)]
    simp
  · rename_i h
    have hlen : (rec.take (blockSize - ((pad pos).2 + headerSize))).length = blockSize - ((pad pos).2 + headerSize) := by
      simp only [List.length_take]; omega
    have hn := nextChunk_pad_chunk s c true pos true false (rec.take (blockSize - ((pad pos).2 + headerSize)))
      ((restChunks (rec.drop (blockSize - ((pad pos).2 + headerSize)))).1 ++ more) hpos (by omega)
    simp only [List.append_assoc] at hn ⊢
    rw [decodeLoop_ok (cur := none) (by simpa using hn)]
    simp only [Bool.false_eq_true, if_false, Option.getD_none, List.nil_append]
    rw [show (pad pos).2 + headerSize + min (blockSize - ((pad pos).2 + headerSize)) rec.length = blockSize by omega,
      decodeLoop_restChunks]
    simp

/-- any number of records, whatever follows them -/
theorem decodeLoop_encodeFrom (s c : Bool) (pos : Nat) (rs : List Bytes) (more : Bytes) (hpos : pos ≤ blockSize) :
    decodeLoop s c ⟨pos, encodeFrom pos rs ++ more⟩ none =
      let r := decodeLoop s c ⟨endPos pos rs, more⟩ none
      ⟨rs.map .record ++ r.events, r.final⟩ := by
  induction rs generalizing pos with
  | nil => simp [encodeFrom, endPos]
  | cons r rs ih =>
    simp only [encodeFrom, endPos, List.append_assoc]
    rw [decodeLoop_emitRecord s c pos r _ hpos, ih _ (emitRecord_pos pos r hpos).2]
    simp [DecodeResult.cons]

theorem eventRecords_map_record (rs : List Bytes) : eventRecords (rs.map .record) = rs := by
  induction rs with
  | nil => rfl
  | cons r rs ih => simp [eventRecords, ih]

theorem eventDrops_map_record (rs : List Bytes) : eventDrops (rs.map .record) = [] := by
  induction rs with
  | nil => rfl
  | cons r rs ih => simp [eventDrops, ih]

theorem decode_encode_events (s c : Bool) (rs : List Bytes) :
    decode s c (encode rs) = ⟨rs.map .record, .eof⟩ := by
  have := decodeLoop_encodeFrom s c 0 rs [] (Nat.zero_le _)
  simp only [List.append_nil] at this
  unfold decode encode
  rw [this, decodeLoop_eof (cur := none) (by simpa using nextChunk_nil s c _ (endPos_le 0 rs (Nat.zero_le _)))]
  simp

end GoLevel.Journal
