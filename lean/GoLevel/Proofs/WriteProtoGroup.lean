import GoLevel.Proofs.WriteProtoCount
/-! What a write group carries, as pure list functions of the leader's call data and the accepted
`writeMerge` messages (`Thread.members`), and the thread-local invariant `GLoc` that ties the locals of
`writeLocked` (`batches`, `ourBatch`, `sync`, `mergeLimit`, `batch.internalLen`) to them. -/
namespace GoLevel.WP

/-- the `writeMerge` message writer `i` (thread record `w`) sends -/
def memOf (i : Nat) (w : Thread) : Mem :=
  { idx := i, sync := w.sync, put := w.put, recs := w.recs, size := w.size }

/-- records of the merged `Put`/`Delete` calls, in the order they were accepted -/
def putRecs (ms : List Mem) : List Rec := ms.flatMap (fun e => if e.put then e.recs else [])

/-- records of the merged `Write` calls -/
def batchRecs (ms : List Mem) : List Rec := ms.flatMap (fun e => if e.put then [] else e.recs)

/-- `batches[1:]`: a merged batch is appended, the pooled batch is appended when the first `Put` is merged
(`seen`: `ourBatch != nil` already) -/
def objsOf : Bool → List Mem → List Obj
  | _, [] => []
  | seen, e :: ms =>
    if e.put then (if seen then objsOf true ms else .our :: objsOf true ms)
    else .other e.idx e.recs :: objsOf seen ms

def sizes (ms : List Mem) : Nat := (ms.map (·.size)).sum
def putSizes (ms : List Mem) : Nat := (ms.map (fun e => if e.put then e.size else 0)).sum
def anySync (ms : List Mem) : Bool := ms.any (·.sync)
def anyPut (ms : List Mem) : Bool := ms.any (·.put)

/-- contents of the pooled batch of a leader: its own record if it is a `Put`, then the merged `Put`s -/
def pooled (put : Bool) (recs : List Rec) (ms : List Mem) : List Rec :=
  (if put then recs else []) ++ putRecs ms

/-- what a group journals and applies, in order -/
def expect (put : Bool) (recs : List Rec) (ms : List Mem) : List Rec :=
  flatOf put recs (pooled put recs ms) (.own :: objsOf put ms)

/-! ## snoc lemmas -/

theorem putRecs_snoc (ms : List Mem) (e : Mem) :
    putRecs (ms ++ [e]) = putRecs ms ++ (if e.put then e.recs else []) := by
  simp [putRecs]

theorem sizes_snoc (ms : List Mem) (e : Mem) : sizes (ms ++ [e]) = sizes ms + e.size := by
  simp [sizes]

theorem putSizes_snoc (ms : List Mem) (e : Mem) :
    putSizes (ms ++ [e]) = putSizes ms + (if e.put then e.size else 0) := by
  simp [putSizes]

theorem anySync_snoc (ms : List Mem) (e : Mem) : anySync (ms ++ [e]) = (anySync ms || e.sync) := by
  simp [anySync]

theorem anyPut_snoc (ms : List Mem) (e : Mem) : anyPut (ms ++ [e]) = (anyPut ms || e.put) := by
  simp [anyPut]

theorem objsOf_snoc (seen : Bool) (ms : List Mem) (e : Mem) :
    objsOf seen (ms ++ [e]) = objsOf seen ms ++
      (if e.put then (if seen || anyPut ms then [] else [.our]) else [.other e.idx e.recs]) := by
  induction ms generalizing seen with
  | nil => cases seen <;> simp [objsOf, anyPut]
  | cons x xs ih =>
    simp only [List.cons_append, objsOf]
    by_cases hx : x.put = true
    · simp only [hx, if_true]
      cases seen <;> simp [ih, anyPut, hx]
    · have hx' : x.put = false := by simpa using hx
      have ha : anyPut (x :: xs) = anyPut xs := by simp [anyPut, hx']
      simp only [hx', Bool.false_eq_true, if_false, List.cons_append, ha, ih]

theorem putRecs_nil_of_anyPut (ms : List Mem) (h : anyPut ms = false) : putRecs ms = [] := by
  induction ms with
  | nil => rfl
  | cons x xs ih =>
    simp only [anyPut, List.any_cons, Bool.or_eq_false_iff] at h
    have := ih (by simpa [anyPut] using h.2)
    simp [putRecs, h.1] at this ⊢
    exact this

/-! ## the thread-local invariant -/

/-- the locals of `writeLocked` in and after the merge loop, in terms of the accepted messages -/
def Shape (c : Cfg) (w : Thread) : Prop :=
  w.batches = .own :: objsOf w.put w.members ∧
  w.our = (w.put || anyPut w.members) ∧
  (c.poolReset = true → c.appendOur = true → w.pb = pooled w.put w.recs w.members) ∧
  (c.syncAll = true → w.gsync = (w.sync || anySync w.members)) ∧
  w.glimit + sizes w.members = mergeLimitOf w.size w.gfree ∧
  (c.appendOur = true → w.bsize = w.size + (if w.put then putSizes w.members else 0)) ∧
  (c.appendOur = true → w.cb = w.recs) ∧
  (w.merge = false → w.members = [])

/-- before `db.flush` returns -/
def FlushShape (w : Thread) : Prop :=
  w.members = [] ∧ w.batches = [] ∧ w.cb = w.recs ∧ w.pb = (if w.put then w.recs else []) ∧ w.our = w.put ∧
  w.gsync = w.sync ∧ w.bsize = w.size

/-- not (yet) in `writeLocked` past `db.flush` -/
def Unled (w : Thread) : Prop := w.batches = [] ∧ w.members = [] ∧ w.cb = w.recs

/-- the ghost record of the group once the merge loop is left -/
def Post (w : Thread) : Prop :=
  w.gn = w.flat.length ∧ (w.jout ≠ none → w.jrecs = w.flat ∧ w.jsync = some w.gsync) ∧
  (w.pub ≠ none → w.arecs = w.flat)

def GLoc (c : Cfg) (w : Thread) : Prop :=
  match w.pc with
  | .idle | .selecting | .waitMerged | .waitAck | .hold => Unled w
  | .lead .flush _ _ => FlushShape w
  | .lead .merging m _ => Shape c w ∧ w.members.length = m
  | .lead .replying m _ => Shape c w ∧ w.members.length = m + 1
  | .lead .journal m _ => Shape c w ∧ w.members.length = m ∧ w.gn = w.flat.length
  | .lead .apply m _ =>
      Shape c w ∧ w.members.length = m ∧ w.gn = w.flat.length ∧ w.jrecs = w.flat ∧ w.jsync = some w.gsync
  | .lead .publish m _ | .lead .rotate m _ =>
      Shape c w ∧ w.members.length = m ∧ w.gn = w.flat.length ∧ w.jrecs = w.flat ∧ w.jsync = some w.gsync ∧
      w.arecs = w.flat
  | .lead (.acking _ _) m _ => (Unled w ∧ w.jout = none ∧ m = 0) ∨ (Shape c w ∧ w.members.length = m ∧ Post w)
  | .returned _ => (Unled w ∧ w.jout = none) ∨ (Shape c w ∧ Post w)

/-! ## one iteration of the merge loop keeps the shape -/

theorem accept_shape (c : Cfg) (l : Thread) (i : Nat) (w : Thread) (st : List Rec) (h : Shape c l)
    (hcb : w.cb = w.recs) (hsz : w.size ≤ l.glimit) (hmg : l.merge = true) :
    Shape c (l.accept c i w st) ∧ (l.accept c i w st).members = l.members ++ [memOf i w] := by
  obtain ⟨h1, h2, h3, h4, h5, h6, h7, _⟩ := h
  refine ⟨⟨?_, ?_, ?_, ?_, ?_, ?_, ?_, ?_⟩, rfl⟩
  · -- batches
    show l.acceptBatches i w = .own :: objsOf l.put (l.members ++ [memOf i w])
    rw [objsOf_snoc, ← List.cons_append, ← h1]
    unfold Thread.acceptBatches
    by_cases hp : w.put = true
    · simp only [hp, if_true, memOf]
      rw [h2]
      cases l.put <;> cases anyPut l.members <;> simp
    · simp [hp, memOf, hcb]
  · -- our
    show (l.our || w.put) = (l.put || anyPut (l.members ++ [memOf i w]))
    rw [anyPut_snoc, h2]; simp [memOf, Bool.or_assoc]
  · -- pb
    intro hr ha
    show l.acceptPb c w st = pooled l.put l.recs (l.members ++ [memOf i w])
    have h3' := h3 hr ha
    unfold Thread.acceptPb pooled
    rw [putRecs_snoc]
    by_cases hp : w.put = true
    · simp only [hp, if_true, memOf, ha, hr, Bool.true_or]
      by_cases ho : l.our = true
      · simp only [ho, if_true, h3', pooled, List.append_assoc]
      · simp only [ho]
        rw [h2] at ho
        simp only [Bool.or_eq_true, not_or, Bool.not_eq_true] at ho
        simp [ho.1, putRecs_nil_of_anyPut _ ho.2]
    · simp [hp, memOf, h3', pooled]
  · -- sync
    intro hs
    show (if (c.syncAll || !w.put) = true then (l.gsync || w.sync) else l.gsync) =
      (l.sync || anySync (l.members ++ [memOf i w]))
    rw [anySync_snoc, h4 hs, hs]; simp [memOf, Bool.or_assoc]
  · -- limit
    show l.glimit - w.size + sizes (l.members ++ [memOf i w]) = mergeLimitOf l.size l.gfree
    rw [sizes_snoc, ← h5]; simp only [memOf]; omega
  · -- bsize
    intro ha
    show l.acceptBsize c w = l.size + (if l.put = true then putSizes (l.members ++ [memOf i w]) else 0)
    unfold Thread.acceptBsize
    rw [putSizes_snoc, h6 ha, ha]
    cases l.put <;> cases hp : w.put <;> simp [memOf, hp] <;> omega
  · -- cb
    intro ha
    show l.acceptCb c w = l.recs
    unfold Thread.acceptCb
    simp [ha, h7 ha]
  · -- merge
    intro hf
    have : l.merge = false := hf
    rw [hmg] at this; cases this

/-! ## the records of a group -/

theorem flatOf_cons (put : Bool) (cb pb : List Rec) (o : Obj) (os : List Obj) :
    flatOf put cb pb (o :: os) = contentOf put cb pb o ++ flatOf put cb pb os := by
  simp [flatOf]

/-- once the pooled batch is in `batches`, the rest of `batches` holds the merged batches only -/
theorem flat_objs_seen (put : Bool) (cb pb : List Rec) (ms : List Mem) :
    flatOf put cb pb (objsOf true ms) = batchRecs ms := by
  induction ms with
  | nil => rfl
  | cons x xs ih =>
    simp only [objsOf]
    by_cases hx : x.put = true
    · simp only [hx, if_true, ih]; simp [batchRecs, hx]
    · have hx' : x.put = false := by simpa using hx
      simp only [hx', Bool.false_eq_true, if_false]
      rw [flatOf_cons, ih]; simp [batchRecs, hx', contentOf]

theorem all_recs_perm (ms : List Mem) : (ms.flatMap (·.recs)).Perm (putRecs ms ++ batchRecs ms) := by
  induction ms with
  | nil => exact .refl _
  | cons x xs ih =>
    simp only [List.flatMap_cons, putRecs, batchRecs] at ih ⊢
    by_cases hx : x.put = true
    · simp only [hx, if_true, List.nil_append, List.append_assoc]
      exact ih.append_left _
    · have hx' : x.put = false := by simpa using hx
      simp only [hx', Bool.false_eq_true, if_false, List.nil_append]
      exact (ih.append_left _).trans (List.perm_append_comm_assoc _ _ _)

/-- `batches[1:]` of a `Write` leader with pooled contents `pb = putRecs ms` -/
theorem flat_objs_unseen (cb : List Rec) (ms : List Mem) :
    (flatOf false cb (putRecs ms) (objsOf false ms)).Perm (putRecs ms ++ batchRecs ms) := by
  suffices h : ∀ (P : List Rec), (anyPut ms = false → putRecs ms = []) →
      (flatOf false cb P (objsOf false ms)).Perm ((if anyPut ms then P else []) ++ batchRecs ms) by
    have := h (putRecs ms) (putRecs_nil_of_anyPut ms)
    cases ha : anyPut ms
    · rw [ha] at this; rw [putRecs_nil_of_anyPut ms ha] at this ⊢; simpa using this
    · rw [ha] at this; simpa using this
  intro P _
  induction ms with
  | nil => simp [objsOf, flatOf, anyPut, batchRecs]
  | cons x xs ih =>
    simp only [objsOf]
    by_cases hx : x.put = true
    · simp only [hx, if_true, Bool.false_eq_true, if_false]
      rw [flatOf_cons, flat_objs_seen]
      simp [anyPut, hx, contentOf, batchRecs]
    · have hx' : x.put = false := by simpa using hx
      simp only [hx', Bool.false_eq_true, if_false]
      rw [flatOf_cons]
      have h2 := ih (by intro h; exact putRecs_nil_of_anyPut xs h)
      have ha : anyPut (x :: xs) = anyPut xs := by simp [anyPut, hx']
      rw [ha]
      have hb : batchRecs (x :: xs) = x.recs ++ batchRecs xs := by simp [batchRecs, hx']
      rw [hb]
      simp only [contentOf]
      exact (h2.append_left _).trans (List.perm_append_comm_assoc _ _ _)

/-- **a group's records are its members' records**: what is journalled is a permutation of the leader's
records followed by every merged call's records -/
theorem expect_perm (put : Bool) (recs : List Rec) (ms : List Mem) :
    (expect put recs ms).Perm (recs ++ ms.flatMap (·.recs)) := by
  unfold expect
  rw [flatOf_cons]
  cases put with
  | true =>
    rw [flat_objs_seen]
    simp only [contentOf, pooled, if_true, List.append_assoc]
    exact (all_recs_perm ms).symm.append_left _
  | false =>
    simp only [contentOf, pooled, Bool.false_eq_true, if_false, List.nil_append]
    exact ((flat_objs_unseen recs ms).trans (all_recs_perm ms).symm).append_left _

theorem expect_length (put : Bool) (recs : List Rec) (ms : List Mem) :
    (expect put recs ms).length = recs.length + (ms.map (·.recs.length)).sum := by
  rw [(expect_perm put recs ms).length_eq]
  simp [List.length_flatMap]

/-- the leader's own records come first, in its order -/
theorem expect_prefix (put : Bool) (recs : List Rec) (ms : List Mem) : recs <+: expect put recs ms := by
  unfold expect
  rw [flatOf_cons]
  cases put <;> simp [contentOf, pooled, List.append_assoc]

theorem sublist_flatOf (put : Bool) (cb pb : List Rec) (o : Obj) (os : List Obj) (h : o ∈ os) :
    (contentOf put cb pb o).Sublist (flatOf put cb pb os) := by
  unfold flatOf
  exact List.sublist_flatten_of_mem (List.mem_map_of_mem h) |>.trans (by rw [List.flatMap_def]; exact .refl _)

theorem other_mem_objsOf (seen : Bool) (ms : List Mem) (e : Mem) (he : e ∈ ms) (hp : e.put = false) :
    Obj.other e.idx e.recs ∈ objsOf seen ms := by
  induction ms generalizing seen with
  | nil => cases he
  | cons x xs ih =>
    simp only [objsOf]
    rcases List.mem_cons.mp he with rfl | h
    · simp [hp]
    · by_cases hx : x.put = true
      · simp only [hx, if_true]; cases seen <;> simp [ih true h]
      · simp [hx, ih seen h]

theorem our_mem_objsOf (ms : List Mem) (h : anyPut ms = true) : Obj.our ∈ objsOf false ms := by
  induction ms with
  | nil => simp [anyPut] at h
  | cons x xs ih =>
    simp only [objsOf]
    by_cases hx : x.put = true
    · simp [hx]
    · simp only [hx]
      have : anyPut xs = true := by simpa [anyPut, hx] using h
      simp [ih this]

theorem sublist_putRecs (ms : List Mem) (e : Mem) (he : e ∈ ms) (hp : e.put = true) :
    e.recs.Sublist (putRecs ms) := by
  unfold putRecs
  rw [List.flatMap_def]
  have : e.recs ∈ ms.map (fun e => if e.put then e.recs else []) :=
    List.mem_map.mpr ⟨e, he, by simp [hp]⟩
  exact List.sublist_flatten_of_mem this

/-- every merged call's records appear in the group in the call's own order (a batch even contiguously:
it is one element of `batches`) -/
theorem expect_member_sublist (put : Bool) (recs : List Rec) (ms : List Mem) (e : Mem) (he : e ∈ ms) :
    e.recs.Sublist (expect put recs ms) := by
  unfold expect
  cases hp : e.put with
  | false =>
    have := sublist_flatOf put recs (pooled put recs ms) _ _
      (List.mem_cons_of_mem .own (other_mem_objsOf put ms e he hp))
    simpa [contentOf] using this
  | true =>
    have h1 := sublist_putRecs ms e he hp
    have h2 : (putRecs ms).Sublist (pooled put recs ms) := by
      unfold pooled; exact List.sublist_append_right _ _
    cases put with
    | true =>
      have := sublist_flatOf true recs (pooled true recs ms) .own (.own :: objsOf true ms) (by simp)
      exact (h1.trans h2).trans (by simpa [contentOf] using this)
    | false =>
      have ha : anyPut ms = true := by
        simp only [anyPut, List.any_eq_true]; exact ⟨e, he, hp⟩
      have := sublist_flatOf false recs (pooled false recs ms) .our (.own :: objsOf false ms)
        (List.mem_cons_of_mem _ (our_mem_objsOf ms ha))
      exact (h1.trans h2).trans (by simpa [contentOf] using this)

/-- under the code's configuration the records in `batches` are `expect` -/
theorem flat_expect (c : Cfg) (w : Thread) (h : Shape c w) (hr : c.poolReset = true) (ha : c.appendOur = true) :
    w.flat = expect w.put w.recs w.members := by
  obtain ⟨h1, _, h3, _, _, _, h7, _⟩ := h
  unfold Thread.flat expect
  rw [h1, h3 hr ha, h7 ha]

end GoLevel.WP
