import GoLevel.Proofs.IterErrDB
/-!
# `EDBIter`: every call sequence (C02 / C08)

`EDBIter.run_reported` (`chk = true`, the code since the repair of D40) and `EDBIter.run_reported_late`
(`chk = false`, the code as found).  Core Lean only.
-/
namespace GoLevel

namespace DBIter
variable {σ τ : Type} {o : EIterOps σ} {sh : IterOps τ} {π : σ → τ} {H : σ → Prop} {F : σ → Err → Prop}

/-- any call on a valid position over a raw iterator that has failed returns `false` and leaves the raw
iterator failed -/
theorem step_raw_failed (hf : FailSim o sh π H F) (c : UCmp) (cl : Call Bytes) (d : DBIter σ) (e : Err)
    (hv : d.dir.valid = true) (he : F d.raw e) :
    (step o.toIterOps c cl d).dir.valid = false ∧ F (step o.toIterOps c cl d).raw e := by
  have hnr : d.dir ≠ .released := by intro h; rw [h] at hv; cases hv
  have hne : d.dir ≠ .eoi := by intro h; rw [h] at hv; cases hv
  have hns : d.dir ≠ .soi := by intro h; rw [h] at hv; cases hv
  have nok : ∀ s, F s e → o.ok s = false := fun s h => hf.nok_of_failed s e h
  cases cl with
  | first =>
    have h1 := hf.sticky_first _ e he
    simp only [step, first, hnr, if_false, nok _ h1, Bool.false_eq_true]
    exact ⟨rfl, h1⟩
  | last =>
    have h1 := hf.sticky_last _ e he
    simp only [step, last, hnr, if_false, nok _ h1, Bool.false_eq_true]
    exact ⟨rfl, h1⟩
  | seek k =>
    have h1 := hf.sticky_seek _ (mkIKey k d.seq Gen.keyTypeSeek) e he
    simp only [step, seek, hnr, if_false, nok _ h1, Bool.false_eq_true]
    exact ⟨rfl, h1⟩
  | next =>
    have h1 := hf.sticky_next _ e he
    simp only [step, next, hnr, hne, or_self, if_false, nok _ h1, Bool.not_false, if_true]
    exact ⟨rfl, h1⟩
  | prev =>
    simp only [step]
    cases hd : d.dir with
    | soi => exact absurd hd hns
    | eoi => exact absurd hd hne
    | released => exact absurd hd hnr
    | forward =>
      rw [prev_forward_eq d hd]
      have h1 := hf.sticky_prev _ e he
      have hb : (backLoop o.toIterOps c d.fuel d).2 = false ∧
          F (backLoop o.toIterOps c d.fuel d).1.raw e := by
        cases d.fuel with
        | zero => exact ⟨rfl, he⟩
        | succ n =>
          rw [backLoop_succ]
          have : o.cur (o.prev d.raw) = none := hf.masked _ e h1
          simp only [this]
          exact ⟨by first | rfl | trivial, h1⟩
      simp only [hb.1, Bool.false_eq_true, if_false]
      exact ⟨by first | rfl | trivial, hb.2⟩
    | backward =>
      simp only [prev, hd]
      rw [prevScan_eq']
      have : (if o.toIterOps.ok d.raw = true then prevLoop o.toIterOps c d.fuel true { d with dir := .backward }
          else ({ d with dir := .backward }, true)) = ({ d with dir := .backward }, true) :=
        if_neg (by rw [nok _ he]; simp)
      rw [this]
      exact ⟨rfl, he⟩

end DBIter

namespace EDBIter
variable {σ τ : Type} {o : EIterOps σ} {sh : IterOps τ} {π : σ → τ} {H : σ → Prop} {F : σ → Err → Prop}

theorem step_sticky (chk : Bool) (o : EIterOps σ) (c : UCmp) (cl : Call Bytes) (d : EDBIter σ) (e : Err)
    (h : d.err = some e) : step chk o c cl d = d := by
  simp [step, h]

theorem run_failed (chk : Bool) (o : EIterOps σ) (c : UCmp) (cs : List (Call Bytes)) (d : EDBIter σ) (e : Err)
    (h : d.err = some e) : ∀ r ∈ run chk o c d cs, r = (none, some e) := by
  induction cs with
  | nil => intro r hr; cases hr
  | cons cl cs ih =>
    intro r hr
    simp only [run, step_sticky chk o c cl d e h, List.mem_cons] at hr
    rcases hr with rfl | hr
    · simp [out, h]
    · exact ih r hr

theorem iterErr_failed (o : EIterOps σ) (d : EDBIter σ) (e : Err) (h : o.err d.base.raw = some e) :
    (iterErr o d).err = some e := by
  simp [iterErr, h, setErr]

theorem iterErr_healthy (o : EIterOps σ) (d : EDBIter σ) (h : o.err d.base.raw = none) :
    iterErr o d = d := by
  simp [iterErr, h]

theorem finish_healthy (chk : Bool) (o : EIterOps σ) (cl : Call Bytes) (d : EDBIter σ) (b : DBIter σ)
    (h : o.err b.raw = none) : finish chk o cl d b = { d with base := b } := by
  unfold finish
  have : iterErr o { d with base := b } = { d with base := b } := iterErr_healthy o _ h
  rw [this]; simp

theorem finish_failed_invalid (chk : Bool) (o : EIterOps σ) (cl : Call Bytes) (d : EDBIter σ) (b : DBIter σ)
    (e : Err) (h : o.err b.raw = some e) (hv : b.dir.valid = false) : (finish chk o cl d b).err = some e := by
  unfold finish
  simp only [hv, Bool.false_eq_true, if_false]
  exact iterErr_failed o _ e h

theorem finish_failed_chk (o : EIterOps σ) (cl : Call Bytes) (d : EDBIter σ) (b : DBIter σ)
    (e : Err) (h : o.err b.raw = some e) (hp : viaPrev cl = true) (hok : o.ok b.raw = false) :
    (finish true o cl d b).err = some e := by
  unfold finish
  simp only [hp, hok, Bool.not_false, Bool.and_self, if_true]
  split <;> exact iterErr_failed o _ e h

theorem finish_nochk (o : EIterOps σ) (cl : Call Bytes) (d : EDBIter σ) (b : DBIter σ)
    (hv : b.dir.valid = true) : finish false o cl d b = { d with base := b } := by
  unfold finish
  simp [hv]

/-- the call after the raw iterator failed unnoticed reports the error -/
theorem step_after_raw_failed (hf : FailSim o sh π H F) (chk : Bool) (c : UCmp) (cl : Call Bytes)
    (d : EDBIter σ) (e : Err) (herr : d.err = none) (hv : d.base.dir.valid = true)
    (hraw : F d.base.raw e) : (step chk o c cl d).err = some e := by
  obtain ⟨h1, h2⟩ := DBIter.step_raw_failed hf c cl d.base e hv hraw
  have hnr : d.base.dir ≠ .released := by intro h; rw [h] at hv; cases hv
  have hne : d.base.dir ≠ .eoi := by intro h; rw [h] at hv; cases hv
  have hns : d.base.dir ≠ .soi := by intro h; rw [h] at hv; cases hv
  have hend : atEnd cl d = false := by
    cases cl <;> simp [atEnd, hne, hns]
  unfold step
  simp only [herr, Option.isSome_none, Bool.false_eq_true, if_false, hend, hnr]
  exact finish_failed_invalid chk o cl d _ e (hf.ferr _ e h2) h1

theorem run_after_raw_failed (hf : FailSim o sh π H F) (chk : Bool) (c : UCmp) (cs : List (Call Bytes))
    (d : EDBIter σ) (e : Err) (herr : d.err = none) (hv : d.base.dir.valid = true)
    (hraw : F d.base.raw e) : ∀ r ∈ run chk o c d cs, r = (none, some e) := by
  cases cs with
  | nil => intro r hr; cases hr
  | cons cl cs =>
    intro r hr
    have h1 := step_after_raw_failed hf chk c cl d e herr hv hraw
    simp only [run, List.mem_cons] at hr
    rcases hr with rfl | hr
    · simp [out, h1]
    · exact run_failed chk o c cs _ e h1 r hr

section
variable (hf : FailSim o sh π H F) {c : UCmp} {es : List Entry} {R : τ → Pos → Prop}
  (hsim : Sim sh c es R) (hl : LawfulUCmp c) (hs : SortedEntries c es)
  (hk : ∀ e ∈ es, e.kind ≤ Gen.keyTypeVal)
include hf hsim hl hs hk

omit hl hs hk hsim in
/-- one call, all cases: either healthy and coupled with the twin, or the error shows now, or (only when
`chk = false`) a pair is served and the raw iterator is failed -/
theorem step_cases (chk : Bool) {seq : Nat} (cl : Call Bytes) (d : EDBIter σ) (p : Pos) (herr : d.err = none)
    (hH : H d.base.raw) (hrel : DBRel c R es seq (d.base.mapRaw π) p) :
    ((step chk o c cl d).err = none ∧ H (step chk o c cl d).base.raw ∧
      (step chk o c cl d).base.mapRaw π = DBIter.step sh c cl (d.base.mapRaw π)) ∨
    (∃ e, (step chk o c cl d).err = some e) ∨
    (chk = false ∧ (step chk o c cl d).err = none ∧ (step chk o c cl d).base.dir.valid = true ∧
      ∃ e, F (step chk o c cl d).base.raw e) := by
  have hnr : d.base.dir ≠ .released := hrel.not_released
  unfold step
  simp only [herr, Option.isSome_none, Bool.false_eq_true, if_false]
  cases hend : atEnd cl d with
  | true =>
    simp only [if_true]
    refine .inl ⟨herr, hH, ?_⟩
    cases cl with
    | next =>
      have : d.base.dir = .eoi := by simpa [atEnd] using hend
      simp [DBIter.step, DBIter.next, DBIter.mapRaw, this]
    | prev =>
      have : d.base.dir = .soi := by simpa [atEnd] using hend
      simp [DBIter.step, DBIter.prev, DBIter.mapRaw, this]
    | first => simp [atEnd] at hend
    | last => simp [atEnd] at hend
    | seek k => simp [atEnd] at hend
  | false =>
    simp only [Bool.false_eq_true, if_false, hnr]
    rcases DBIter.step_couple hf c cl d.base hH with ⟨h1, h2⟩ | ⟨⟨e, he⟩, hnp⟩
    · have hno := hf.herr _ h1
      rw [finish_healthy chk o cl d _ hno]
      exact .inl ⟨herr, h1, h2⟩
    · have nok : o.ok (DBIter.step o.toIterOps c cl d.base).raw = false := hf.nok_of_failed _ e he
      have he' := hf.ferr _ e he
      cases hv : (DBIter.step o.toIterOps c cl d.base).dir.valid with
      | false => exact .inr (.inl ⟨e, finish_failed_invalid chk o cl d _ e he' hv⟩)
      | true =>
        have hvp : viaPrev cl = true := by
          cases hvp : viaPrev cl with
          | true => rfl
          | false => rw [hnp hvp] at hv; cases hv
        cases chk with
        | true => exact .inr (.inl ⟨e, finish_failed_chk o cl d _ e he' hvp nok⟩)
        | false =>
          rw [finish_nochk o cl d _ hv]
          exact .inr (.inr ⟨rfl, herr, hv, e, he⟩)

/-- **the DB iterator since the repair of D40**: against the answers of the error-free `DBIter` over the
twin (hence, by C02, of the cursor) -/
theorem run_reported_twin {seq : Nat} (cs : List (Call Bytes)) (d : EDBIter σ) (p : Pos) (herr : d.err = none)
    (hH : H d.base.raw) (hrel : DBRel c R es seq (d.base.mapRaw π) p) :
    Reported (run true o c d cs) (DBIter.run sh c (d.base.mapRaw π) cs) := by
  induction cs generalizing d p with
  | nil => trivial
  | cons cl cs ih =>
    simp only [run, DBIter.run]
    have hrel' := step_rel hsim hl hs hk cl hrel
    rcases step_cases hf true cl d p herr hH hrel with ⟨h1, h2, h3⟩ | ⟨e, h1⟩ | ⟨h0, _⟩
    · rw [h1]
      refine ⟨?_, ?_⟩
      · simp only [out, h1, Option.isSome_none, Bool.false_eq_true, if_false]
        rw [← h3]; rfl
      · rw [← h3] at hrel' ⊢
        exact ih _ _ h1 h2 hrel'
    · rw [h1]
      exact ⟨by simp [out, h1], run_failed true o c cs _ e h1⟩
    · cases h0

/-- **the DB iterator as found (D40)**: the failing call may still serve a pair -/
theorem run_reported_late_twin {seq : Nat} (cs : List (Call Bytes)) (d : EDBIter σ) (p : Pos)
    (herr : d.err = none) (hH : H d.base.raw) (hrel : DBRel c R es seq (d.base.mapRaw π) p) :
    ReportedLate (run false o c d cs) (DBIter.run sh c (d.base.mapRaw π) cs) := by
  induction cs generalizing d p with
  | nil => trivial
  | cons cl cs ih =>
    simp only [run, DBIter.run]
    have hrel' := step_rel hsim hl hs hk cl hrel
    rcases step_cases hf false cl d p herr hH hrel with ⟨h1, h2, h3⟩ | ⟨e, h1⟩ | ⟨_, h1, hv, e, he⟩
    · rw [h1]
      refine .inl ⟨?_, ?_⟩
      · simp only [out, h1, Option.isSome_none, Bool.false_eq_true, if_false]
        rw [← h3]; rfl
      · rw [← h3] at hrel' ⊢
        exact ih _ _ h1 h2 hrel'
    · rw [h1]
      exact ⟨by simp [out, h1], run_failed false o c cs _ e h1⟩
    · rw [h1]
      refine .inr ⟨?_, e, run_after_raw_failed hf false c cs _ e h1 hv he⟩
      simp [out, h1, DBIter.out, hv]

end
end EDBIter
end GoLevel
