import GoLevel.Proofs.JournalBytes
/-! Reader lemmas: unfolding equations of `decodeLoop`, `nextChunk` on a well-formed chunk. -/
namespace GoLevel.Journal
open GoLevel.Gen (journalBlockSize journalHeaderSize fullChunkType firstChunkType middleChunkType lastChunkType)

local notation "blockSize" => journalBlockSize
local notation "headerSize" => journalHeaderSize

/-- two rounds of the `for` loop of `nextChunk` always suffice: the fuel-exhausted branch of
    `nextChunkLoop` is never reached from `nextChunk` -/
theorem nextChunkLoop_fuel (s c f : Bool) (k : Nat) (st : RState) :
    nextChunkLoop s c f (k + 2) st = nextChunkLoop s c f 2 st := by
  have h7 := headerSize_eq
  have hlt := headerSize_lt_blockSize
  simp only [nextChunkLoop]
  repeat' split
  all_goals first
    | rfl
    | (simp only [List.length_drop] at *; omega)

/-! ### one-step equations of the reader loop -/

theorem decodeLoop_eof {s c st cur} (h : nextChunk s c cur.isNone st = .eof) :
    decodeLoop s c st cur = ⟨[], .eof⟩ := by
  rw [decodeLoop]; split <;> simp_all

theorem decodeLoop_corrupt {s c st cur n w} (h : nextChunk s c cur.isNone st = .corrupt n w) :
    decodeLoop s c st cur = ⟨[.drop n w], .corrupt⟩ := by
  rw [decodeLoop]; split <;> simp_all

theorem decodeLoop_skip {s c st cur n w st'} (h : nextChunk s c cur.isNone st = .skip n w st') :
    decodeLoop s c st cur = (decodeLoop s c st' none).cons (.drop n w) := by
  rw [decodeLoop]; split <;> simp_all

theorem decodeLoop_ok {s c st cur p l st'} (h : nextChunk s c cur.isNone st = .ok p l st') :
    decodeLoop s c st cur =
      if l then (decodeLoop s c st' none).cons (.record (cur.getD [] ++ p))
      else decodeLoop s c st' (some (cur.getD [] ++ p)) := by
  rw [decodeLoop]; split <;> simp_all

/-! ### a well-formed chunk is parsed back -/

theorem parseChunk_chunk (s c first : Bool) (pos n : Nat) (f l : Bool) (p more : Bytes)
    (hp : p.length < 65536) (hn : pos + headerSize + p.length ≤ n) :
    parseChunk s c first pos (chunk (chunkType f l) p ++ more) n =
      if first ∧ f = false then
        .skip (p.length + headerSize) .orphan ⟨pos + headerSize + p.length, more⟩
      else .ok p l ⟨pos + headerSize + p.length, more⟩ := by
  obtain ⟨r1, r2, r3, r4⟩ := chunkType_range f l
  obtain ⟨e1, e2, e3, e4, e5, e6⟩ := chunk_fields (chunkType f l) p more r3 hp
  unfold parseChunk
  simp only [e1, e2, e3, e4, e5, e6]
  have hlast := chunkType_last f l
  have hfirst := chunkType_first f l
  rw [if_neg (by omega), if_neg (by omega), if_neg (by omega), if_neg (by simp)]
  by_cases hf : first = true ∧ f = false
  · rw [if_pos ⟨hf.1, hfirst.2 hf.2⟩, if_pos hf]; simp [corrupt]
  · rw [if_neg (fun h => hf ⟨h.1, hfirst.1 h.2⟩), if_neg hf]
    cases l <;> simp_all

/-- `nextChunk` at offset `pos` on `pad ++ chunk ++ more`: the padding (if any) is skipped silently and the
    chunk is parsed.  `pos = blockSize` (block exactly full) is the case of an empty padding. -/
theorem nextChunk_pad_chunk (s c first : Bool) (pos : Nat) (f l : Bool) (p more : Bytes)
    (hpos : pos ≤ blockSize) (hfit : (pad pos).2 + headerSize + p.length ≤ blockSize) :
    nextChunk s c first ⟨pos, (pad pos).1 ++ chunk (chunkType f l) p ++ more⟩ =
      if first ∧ f = false then
        .skip (p.length + headerSize) .orphan ⟨(pad pos).2 + headerSize + p.length, more⟩
      else .ok p l ⟨(pad pos).2 + headerSize + p.length, more⟩ := by
  have h7 := headerSize_eq
  have hlt := headerSize_lt_blockSize
  have h16 := blockSize_lt_u16
  have hp : p.length < 65536 := by omega
  unfold pad at hfit ⊢
  by_cases hpad : pos + headerSize > blockSize
  · -- padding: skip to the next block
    simp only [if_pos hpad] at hfit ⊢
    unfold nextChunk nextChunkLoop
    simp only [List.length_append, List.length_replicate, chunk_length, List.append_assoc]
    rw [if_neg (by omega), if_neg (by omega)]
    have hdrop : List.drop (pos + min (blockSize - pos) (blockSize - pos + (headerSize + p.length + more.length)) - pos)
        (List.replicate (blockSize - pos) (0 : UInt8) ++ (chunk (chunkType f l) p ++ more)) =
        chunk (chunkType f l) p ++ more := by
      apply List.drop_left'
      simp only [List.length_replicate]; omega
    rw [hdrop]
    simp only [List.length_append, chunk_length]
    rw [if_neg (by omega)]
    unfold nextChunkLoop
    simp only [List.length_append, chunk_length]
    rw [if_pos (by omega)]
    rw [parseChunk_chunk s c first 0 _ f l p more hp (by omega)]
  · simp only [if_neg hpad] at hfit ⊢
    unfold nextChunk nextChunkLoop
    simp only [List.nil_append, List.length_append, chunk_length]
    rw [if_pos (by omega)]
    exact parseChunk_chunk s c first pos _ f l p more hp (by omega)

/-- at the end of the stream `Next` returns `io.EOF` -/
theorem nextChunk_nil (s c : Bool) (pos : Nat) (_hpos : pos ≤ blockSize) :
    nextChunk s c true ⟨pos, []⟩ = .eof := by
  have h7 := headerSize_eq
  have hlt := headerSize_lt_blockSize
  unfold nextChunk nextChunkLoop
  simp only [List.length_nil, Nat.min_zero, Nat.add_zero, List.drop_nil, endOfStream]
  split
  · omega
  · split <;> simp

end GoLevel.Journal
