import GoLevel.Proofs.CacheVal
/-! Invariant of the cache system, part 7: after `Close`, a pending `unRefExternal` zero branch / finaliser
belongs to a node whose counter is not positive (`zr`).  This is where the guard on `Close` is used. -/
namespace GoLevel.CacheM

set_option linter.unusedSimpArgs false

theorem zr_step {g sh Q log sh' i push evs} (h : InvP g sh (i :: Q) log)
    (he : exec sh i = some (sh', push, evs))
    (hguard : ∀ f, i = .closeLock f → g = true → ∀ j ∈ Q, isExtz j = false) :
    g = true → sh'.closed = true → sh'.forced = false → ∀ j ∈ push ++ Q, ∀ id, zeroRef j = some id →
      ∀ n ∈ sh'.nodes, n.id = id → n.ref ≤ 0 := by
  by_cases hsc : sh.closed = true
  · have hall := h.cl hsc
    simp only [List.mem_cons, forall_eq_or_imp] at hall
    obtain ⟨hi, hQ⟩ := hall
    have hzr := h.zr
    have hfo := h.fo
    simp only [List.mem_cons, forall_eq_or_imp] at hzr hfo
    cases i <;> simp only [openOnly, reduceCtorEq] at hi <;> exec_split he
    all_goals (intro hg hc hf j hj id hz n hn hid)
    all_goals (try simp only [] at hc hf hn)
    all_goals (simp only [List.mem_append, List.mem_cons, List.mem_map, List.mem_flatMap, List.not_mem_nil,
      or_false, false_or] at hj)
    all_goals first
      | (exact (hzr hg hsc hf).2 j (by grind) id hz n hn hid)
      | (have hz2 := (hzr hg hsc hf).2
         have hz1 := (hzr hg hsc hf).1
         rw [mem_upd] at hn; obtain ⟨m, hm, rfl⟩ := hn
         have hu := found_unique h.ids.1 (by assumption) hm
         grind [zeroRef])
      | (have hz2 := (hzr hg hsc hf).2
         have hz1 := (hzr hg hsc hf).1
         rw [mem_upd] at hn; obtain ⟨m, hm, rfl⟩ := hn
         grind [zeroRef])
      | (have hz2 := (hzr hg hsc hf).2
         have hz1 := (hzr hg hsc hf).1
         grind [zeroRef])
      | (have := (hfo hf).1; simp [forcedOnly] at this; done)
      | (obtain ⟨m, hm, hid1, href1, _⟩ := mem_clearLru_proj hn
         have hz2 := (hzr hg hsc hf).2
         grind [zeroRef])
      | skip
  · have hso : sh.closed = false := by simpa using hsc
    have hop := (h.op hso).1
    simp only [List.mem_cons, forall_eq_or_imp] at hop
    cases i <;> exec_split he
    all_goals (intro hg hc hf j hj id hz n hn hid)
    all_goals (try simp only [] at hc hf hn)
    all_goals first
      | (rw [hso] at hc; cases hc)
      | (exfalso
         have hgd := hguard _ rfl hg
         simp only [List.mem_append, List.mem_cons, List.mem_map, List.mem_flatMap, List.not_mem_nil,
           or_false, false_or] at hj
         rcases hj with ⟨a, _, ha⟩ | hj
         · first
            | (rcases ha with (rfl | rfl) | rfl <;> simp [zeroRef] at hz)
            | (subst ha; simp [zeroRef] at hz)
            | (simp at ha; rcases ha with rfl | rfl | rfl <;> simp [zeroRef] at hz)
            | (simp at ha; subst ha; simp [zeroRef] at hz)
         · have h1 := hgd j hj
           have h2 := hop.2 j hj
           cases j <;> simp_all [zeroRef, isExtz, closedOnly])
end GoLevel.CacheM
