import GoLevel.Proofs.CacheVal
/-! Invariant of the cache system, part 7: after `Close`, a pending `unRefExternal` zero branch / finaliser
belongs to a node whose counter is not positive (`zr`).  This is where the guard on `Close` is used. -/
namespace GoLevel.CacheM

set_option linter.unusedSimpArgs false

theorem zr_step {g sh Q log sh' i push evs} (h : InvP g sh (i :: Q) log)
    (he : exec sh i = some (sh', push, evs))
    (hguard : ∀ f, i = .closeLock f → g = true → ∀ j ∈ Q, isExtz j = false) :
    Eff g sh' = true → sh'.closed = true → sh'.forced = false → ∀ j ∈ push ++ Q, ∀ id, zeroRef g j = some id →
      ∀ n ∈ sh'.nodes, n.id = id → n.ref ≤ 0 := by
  by_cases hsc : sh.closed = true
  · have hall := h.cl hsc
    simp only [List.mem_cons, forall_eq_or_imp] at hall
    obtain ⟨hi, hQ⟩ := hall
    have hzr := h.zr
    have hfo := h.fo
    simp only [List.mem_cons, forall_eq_or_imp] at hzr hfo
    cases i
    case extz eid k =>
      -- the zero branch of `unRefExternal` on a closed cache
      simp only [exec, hsc, if_true] at he
      intro hg hc hf j hj id hz n hn hid
      by_cases hre : (sh.recheck && refNonZero sh.nodes eid) = true
      · rw [if_pos hre] at he
        simp only [Option.some.injEq, Prod.mk.injEq] at he; obtain ⟨rfl, rfl, rfl⟩ := he
        simp only [List.cons_append, List.nil_append, List.mem_cons] at hj
        rcases hj with rfl | hj
        · simp [zeroRef] at hz
        · exact (hzr hg hsc hf).2 j hj id hz n hn hid
      · rw [if_neg hre] at he
        simp only [Option.some.injEq, Prod.mk.injEq] at he; obtain ⟨rfl, rfl, rfl⟩ := he
        simp only [List.cons_append, List.nil_append, List.mem_cons] at hj
        rcases hj with rfl | rfl | hj
        · simp only [zeroRef, Option.some.injEq] at hz
          subst hz
          cases g with
          | true => exact (hzr hg hsc hf).1 eid (by simp [zeroRef]) n hn hid
          | false =>
            have hrc : sh.recheck = true := by simpa [Eff] using hg
            cases hfind : findId sh.nodes eid with
            | none => exact absurd hid (findId_none hfind n hn)
            | some n0 =>
              have := found_unique h.ids.1 hfind hn hid
              subst this
              simp only [refNonZero, hfind, hrc, Bool.true_and, decide_eq_true_eq, ne_eq, Decidable.not_not] at hre
              omega
        · simp [zeroRef] at hz
        · exact (hzr hg hsc hf).2 j hj id hz n hn hid
    all_goals (simp only [openOnly, reduceCtorEq] at hi)
    all_goals exec_split he
    all_goals (intro hg hc hf j hj id hz n hn hid)
    all_goals (try simp only [] at hc hf hn)
    all_goals (simp only [List.mem_append, List.mem_cons, List.mem_map, List.mem_flatMap, List.not_mem_nil,
      or_false, false_or] at hj)
    all_goals first
      | (exact (hzr hg hsc hf).2 j (by grind) id hz n hn hid)
      | (have hz2 := (hzr hg hsc hf).2
         have hz1 := (hzr hg hsc hf).1
         rw [mem_upd] at hn; obtain ⟨m, hm, rfl⟩ := hn
         have hu := found_unique h.ids.1 (by assumption) hm
         grind [zeroRef])
      | (have hz2 := (hzr hg hsc hf).2
         have hz1 := (hzr hg hsc hf).1
         rw [mem_upd] at hn; obtain ⟨m, hm, rfl⟩ := hn
         grind [zeroRef])
      | (have hz2 := (hzr hg hsc hf).2
         have hz1 := (hzr hg hsc hf).1
         grind [zeroRef])
      | (have := (hfo hf).1; simp [forcedOnly] at this; done)
      | (obtain ⟨m, hm, hid1, href1, _⟩ := mem_clearLru_proj hn
         have hz2 := (hzr hg hsc hf).2
         grind [zeroRef])
      | skip
  · have hso : sh.closed = false := by simpa using hsc
    have hop := (h.op hso).1
    simp only [List.mem_cons, forall_eq_or_imp] at hop
    cases i <;> exec_split he
    all_goals (intro hg hc hf j hj id hz n hn hid)
    all_goals (try simp only [] at hc hf hn)
    all_goals first
      | (rw [hso] at hc; cases hc)
      | (exfalso
         simp only [List.mem_append, List.mem_cons, List.mem_map, List.mem_flatMap, List.not_mem_nil,
           or_false, false_or] at hj
         rcases hj with ⟨a, _, ha⟩ | hj
         · first
            | (rcases ha with (rfl | rfl) | rfl <;> simp [zeroRef] at hz)
            | (subst ha; simp [zeroRef] at hz)
            | (simp at ha; rcases ha with rfl | rfl | rfl <;> simp [zeroRef] at hz)
            | (simp at ha; subst ha; simp [zeroRef] at hz)
         · have h2 := hop.2 j hj
           cases j <;> simp [zeroRef, closedOnly] at hz h2
           all_goals (have := hguard _ rfl hz.1 _ hj; simp [isExtz] at this))
end GoLevel.CacheM
