import GoLevel.Proofs.RefLoopBasic
/-! The FULL environment of the reference loop (C07): version ids with holes (ids of failed commits, which
`session.commit` abandons), trivial-move deltas (a table both added and deleted), the empty delta of
`session.recover` (the loop's view `L` of a version may be smaller than the version's tables `T`), and the
shutdown sequence of `session.close` (a closing version that is referenced, the current version released
without a delta).  Everything is a ghost history: only appended to. -/
namespace GoLevel.RefLoop

/-- What a version id stands for. -/
inductive Slot
  /-- the id of a version spawned by a `session.commit` that failed (`s.abandon <- nv.id`) -/
  | failed
  /-- an installed version: `T` = its tables (what `version.incref` sends), `L` = the loop's view of it
  (the sum of the deltas up to it), `din` = the delta that `session.setVersion` sends when installing it
  (filed under the id of its predecessor) -/
  | inst (T L : List Nat) (din : Delta)
  deriving Repr

def Slot.isInst : Slot → Bool
  | .inst .. => true
  | .failed => false
def Slot.T : Slot → List Nat
  | .inst T _ _ => T
  | .failed => []
def Slot.L : Slot → List Nat
  | .inst _ L _ => L
  | .failed => []
def Slot.din : Slot → Delta
  | .inst _ _ d => d
  | .failed => ⟨[], []⟩

structure EnvF where
  vs : List Slot
  /-- id of the oldest installed version whose delta has not been sent (= the current version, except inside
  `setVersion` between `v.incref()` and the send on `deltaCh`) -/
  dn : Nat
  rel : List Nat
  /-- `session.close` has installed its closing version -/
  closing : Bool
  deriving Repr

def EnvF.init : EnvF := { vs := [], dn := 0, rel := [], closing := false }
def EnvF.N (G : EnvF) : Nat := G.vs.length
def EnvF.slot (G : EnvF) (k : Nat) : Slot := G.vs[k]?.getD .failed
def EnvF.inst (G : EnvF) (k : Nat) : Prop := (G.slot k).isInst = true
def EnvF.T (G : EnvF) (k : Nat) : List Nat := (G.slot k).T
def EnvF.L (G : EnvF) (k : Nat) : List Nat := (G.slot k).L
def EnvF.din (G : EnvF) (k : Nat) : Delta := (G.slot k).din
/-- the first installed id `≥ k` (`N` or more when there is none) -/
def EnvF.up (G : EnvF) (k : Nat) : Nat := k + (G.vs.drop k).findIdx Slot.isInst

instance (G : EnvF) (k : Nat) : Decidable (G.inst k) := by unfold EnvF.inst; infer_instance

theorem EnvF.inst_lt {G : EnvF} {k : Nat} (h : G.inst k) : k < G.N := by
  unfold EnvF.inst EnvF.slot at h
  rcases Nat.lt_or_ge k G.N with h1 | h1
  · exact h1
  · rw [List.getElem?_eq_none h1] at h; simp [Slot.isInst] at h

theorem EnvF.slot_ge {G : EnvF} {k : Nat} (h : G.N ≤ k) : G.slot k = .failed := by
  unfold EnvF.slot; rw [List.getElem?_eq_none h]; rfl

theorem EnvF.T_not_inst {G : EnvF} {k : Nat} (h : ¬ G.inst k) : G.T k = [] := by
  unfold EnvF.inst at h; unfold EnvF.T
  cases hs : G.slot k <;> simp_all [Slot.isInst, Slot.T]

theorem EnvF.up_ge_self (G : EnvF) (k : Nat) : k ≤ G.up k := Nat.le_add_right _ _

theorem EnvF.up_of_ge {G : EnvF} {k : Nat} (h : G.N ≤ k) : G.up k = k := by
  unfold EnvF.up; rw [List.drop_eq_nil_of_le h]; rfl

theorem EnvF.drop_eq {G : EnvF} {k : Nat} (h : k < G.N) : G.vs.drop k = G.slot k :: G.vs.drop (k + 1) := by
  unfold EnvF.slot
  rw [List.getElem?_eq_getElem h, Option.getD_some]
  exact List.drop_eq_getElem_cons h

theorem EnvF.up_inst {G : EnvF} {k : Nat} (h : G.inst k) : G.up k = k := by
  unfold EnvF.up; rw [EnvF.drop_eq (EnvF.inst_lt h), List.findIdx_cons]
  unfold EnvF.inst at h; simp [h]

theorem EnvF.up_failed {G : EnvF} {k : Nat} (hk : k < G.N) (h : ¬ G.inst k) : G.up k = G.up (k + 1) := by
  unfold EnvF.up; rw [EnvF.drop_eq hk, List.findIdx_cons]
  unfold EnvF.inst at h; simp only [h, cond_false]; omega

theorem EnvF.up_le (G : EnvF) {k : Nat} (h : k ≤ G.N) : G.up k ≤ G.N := by
  unfold EnvF.up
  have := List.findIdx_le_length (p := Slot.isInst) (xs := G.vs.drop k)
  simp only [List.length_drop, EnvF.N] at *; omega

/-- `up` by downward induction: a statement about `up k` for every `k ≤ N`. -/
theorem EnvF.up_induct (G : EnvF) (P : Nat → Prop)
    (hN : ∀ k, G.N ≤ k → P k)
    (hi : ∀ k, k < G.N → G.inst k → P k)
    (hf : ∀ k, k < G.N → ¬ G.inst k → P (k + 1) → P k) : ∀ k, P k := by
  intro k
  rcases Nat.lt_or_ge k G.N with h | h
  · generalize hd : G.N - k = d
    induction d generalizing k with
    | zero => omega
    | succ d ih =>
      by_cases hk : G.inst k
      · exact hi k h hk
      · refine hf k h hk ?_
        rcases Nat.lt_or_ge (k + 1) G.N with h1 | h1
        · exact ih (k + 1) h1 (by omega)
        · exact hN _ h1
  · exact hN k h

theorem EnvF.up_inst_of_lt (G : EnvF) (k : Nat) : G.up k < G.N → G.inst (G.up k) := by
  refine G.up_induct (fun k => G.up k < G.N → G.inst (G.up k)) ?_ ?_ ?_ k
  · intro k hk h; rw [EnvF.up_of_ge hk] at h; omega
  · intro k _ hk _; rw [EnvF.up_inst hk]; exact hk
  · intro k hk hn ih h; rw [EnvF.up_failed hk hn] at h ⊢; exact ih h

theorem EnvF.not_inst_below_up (G : EnvF) (k : Nat) : ∀ j, k ≤ j → j < G.up k → ¬ G.inst j := by
  refine G.up_induct (fun k => ∀ j, k ≤ j → j < G.up k → ¬ G.inst j) ?_ ?_ ?_ k
  · intro k hk j h1 h2; rw [EnvF.up_of_ge hk] at h2; omega
  · intro k _ hk j h1 h2; rw [EnvF.up_inst hk] at h2; omega
  · intro k hk hn ih j h1 h2
    rw [EnvF.up_failed hk hn] at h2
    by_cases hj : j = k
    · subst hj; exact hn
    · exact ih j (by omega) h2

/-- the first installed id at or above `k` is below every installed `j ≥ k` -/
theorem EnvF.up_le_of_inst {G : EnvF} {k j : Nat} (hkj : k ≤ j) (hj : G.inst j) : G.up k ≤ j := by
  rcases Nat.lt_or_ge j (G.up k) with h | h
  · exact absurd hj (G.not_inst_below_up k j hkj h)
  · exact h

theorem EnvF.up_mono (G : EnvF) {k j : Nat} (hkj : k ≤ j) : G.up k ≤ G.up j := by
  rcases Nat.lt_or_ge (G.up j) G.N with h | h
  · exact EnvF.up_le_of_inst (Nat.le_trans hkj (G.up_ge_self j)) (G.up_inst_of_lt j h)
  · rcases Nat.lt_or_ge k G.N with h1 | h1
    · exact Nat.le_trans (G.up_le (Nat.le_of_lt h1)) h
    · rw [EnvF.up_of_ge h1]; exact Nat.le_trans hkj (G.up_ge_self j)

/-- `up` is idempotent below an installed id -/
theorem EnvF.up_eq_of_between {G : EnvF} {k j : Nat} (h1 : k ≤ j) (h2 : j ≤ G.up k) : G.up j = G.up k := by
  apply Nat.le_antisymm
  · rcases Nat.lt_or_ge (G.up k) G.N with h | h
    · exact EnvF.up_le_of_inst h2 (G.up_inst_of_lt k h)
    · rcases Nat.lt_or_ge j G.N with hj | hj
      · have := G.up_le (Nat.le_of_lt hj)
        have hk : k ≤ G.N := by omega
        have := G.up_le hk
        omega
      · rw [EnvF.up_of_ge hj]; exact h2
  · exact G.up_mono h1

/-! ### appending an id -/

def EnvF.push (G : EnvF) (s : Slot) : EnvF := { G with vs := G.vs ++ [s] }

@[simp] theorem EnvF.push_N (G : EnvF) (s : Slot) : (G.push s).N = G.N + 1 := by simp [EnvF.push, EnvF.N]
@[simp] theorem EnvF.push_dn (G : EnvF) (s : Slot) : (G.push s).dn = G.dn := rfl
@[simp] theorem EnvF.push_rel (G : EnvF) (s : Slot) : (G.push s).rel = G.rel := rfl
@[simp] theorem EnvF.push_closing (G : EnvF) (s : Slot) : (G.push s).closing = G.closing := rfl

theorem EnvF.push_slot_lt {G : EnvF} {s : Slot} {k : Nat} (h : k < G.N) : (G.push s).slot k = G.slot k := by
  simp only [EnvF.slot, EnvF.push, EnvF.N] at *
  rw [List.getElem?_append_left h]

theorem EnvF.push_slot_eq {G : EnvF} {s : Slot} : (G.push s).slot G.N = s := by
  simp [EnvF.slot, EnvF.push, EnvF.N]

theorem EnvF.push_slot (G : EnvF) (s : Slot) (k : Nat) :
    (G.push s).slot k = if k < G.N then G.slot k else if k = G.N then s else .failed := by
  by_cases h1 : k < G.N
  · simp [h1, EnvF.push_slot_lt h1]
  · by_cases h2 : k = G.N
    · subst h2; simp [EnvF.push_slot_eq]
    · simp only [h1, h2, if_false]; apply EnvF.slot_ge; simp; omega

theorem EnvF.push_up {G : EnvF} {s : Slot} {k : Nat} (hk : k ≤ G.N) :
    (G.push s).up k = if G.up k < G.N then G.up k else if s.isInst then G.N else G.N + 1 := by
  have hlen : (G.vs.drop k).length = G.N - k := by simp [EnvF.N]
  unfold EnvF.up EnvF.push
  simp only []
  rw [List.drop_append_of_le_length hk, List.findIdx_append, hlen, List.findIdx_singleton]
  have hle := List.findIdx_le_length (p := Slot.isInst) (xs := G.vs.drop k)
  rw [hlen] at hle
  by_cases h : List.findIdx Slot.isInst (G.vs.drop k) < G.N - k
  · have : k + List.findIdx Slot.isInst (G.vs.drop k) < G.N := by omega
    simp [h, this]
  · have : ¬ k + List.findIdx Slot.isInst (G.vs.drop k) < G.N := by omega
    simp only [h, this, if_false]
    split <;> omega

theorem EnvF.push_inst_lt {G : EnvF} {s : Slot} {k : Nat} (h : k < G.N) : (G.push s).inst k ↔ G.inst k := by
  unfold EnvF.inst; rw [EnvF.push_slot_lt h]
theorem EnvF.push_T_lt {G : EnvF} {s : Slot} {k : Nat} (h : k < G.N) : (G.push s).T k = G.T k := by
  unfold EnvF.T; rw [EnvF.push_slot_lt h]
theorem EnvF.push_L_lt {G : EnvF} {s : Slot} {k : Nat} (h : k < G.N) : (G.push s).L k = G.L k := by
  unfold EnvF.L; rw [EnvF.push_slot_lt h]
theorem EnvF.push_din_lt {G : EnvF} {s : Slot} {k : Nat} (h : k < G.N) : (G.push s).din k = G.din k := by
  unfold EnvF.din; rw [EnvF.push_slot_lt h]
theorem EnvF.push_T_eq {G : EnvF} {s : Slot} : (G.push s).T G.N = s.T := by
  unfold EnvF.T; rw [EnvF.push_slot_eq]
theorem EnvF.push_L_eq {G : EnvF} {s : Slot} : (G.push s).L G.N = s.L := by
  unfold EnvF.L; rw [EnvF.push_slot_eq]
theorem EnvF.push_inst_eq {G : EnvF} {s : Slot} : (G.push s).inst G.N ↔ s.isInst = true := by
  unfold EnvF.inst; rw [EnvF.push_slot_eq]

/-- an installed id of the extended history is an old one or the new one -/
theorem EnvF.push_inst_cases {G : EnvF} {s : Slot} {k : Nat} (h : (G.push s).inst k) :
    (k < G.N ∧ G.inst k) ∨ (k = G.N ∧ s.isInst = true) := by
  have hlt := EnvF.inst_lt h
  simp only [EnvF.push_N] at hlt
  by_cases hk : k < G.N
  · exact Or.inl ⟨hk, (EnvF.push_inst_lt hk).mp h⟩
  · have : k = G.N := by omega
    subst this; exact Or.inr ⟨rfl, EnvF.push_inst_eq.mp h⟩

theorem EnvF.push_T_mem {G : EnvF} {s : Slot} {k f : Nat} (h : f ∈ (G.push s).T k) :
    (k < G.N ∧ f ∈ G.T k) ∨ (k = G.N ∧ f ∈ s.T) := by
  by_cases hk : k < G.N
  · rw [EnvF.push_T_lt hk] at h; exact Or.inl ⟨hk, h⟩
  · by_cases hk2 : k = G.N
    · subst hk2; rw [EnvF.push_T_eq] at h; exact Or.inr ⟨rfl, h⟩
    · have : ¬ (G.push s).inst k := fun hi => by have := EnvF.inst_lt hi; simp at this; omega
      rw [EnvF.T_not_inst this] at h; cases h

theorem EnvF.L_not_inst {G : EnvF} {k : Nat} (h : ¬ G.inst k) : G.L k = [] := by
  unfold EnvF.inst at h; unfold EnvF.L
  cases hs : G.slot k <;> simp_all [Slot.isInst, Slot.L]

end GoLevel.RefLoop
