import GoLevel.Proofs.ConcCover
/-!
# The cover invariant is preserved by every step of the real system
-/
namespace GoLevel.Conc

variable {c : UCmp}

/-- same members on both sides -/
theorem view_sets {U U' L L' : List Entry} {k : Bytes} {s : Nat} (hU' : Uniq U')
    (hUU : ∀ e, e ∈ U' ↔ e ∈ U) (hLL : ∀ e, e ∈ L' ↔ e ∈ L) (hL : ∀ e ∈ L, e ∈ U)
    (h : view c L k s = view c U k s) : view c L' k s = view c U' k s := by
  have hUsub : ∀ e ∈ U, e ∈ U' := fun e he => (hUU e).2 he
  have e1 : view c L' k s = view c L k s :=
    view_congr hU' (fun e he => hUsub e (hL e ((hLL e).1 he))) (fun e he => hUsub e (hL e he))
      (fun e _ => hLL e)
  have e2 : view c U' k s = view c U k s :=
    view_congr hU' (fun e he => he) hUsub (fun e _ => hUU e)
  rw [e1, e2, h]

/-- generic: a write adds the strictly newer entries `E` to the write-side buffers and to the universe -/
theorem cover_write {σ σ' : State} {E : List Entry} (hb : Basic σ) (hb' : Basic σ') (hc : Cover c σ)
    (hU : ∀ e, e ∈ univ σ' ↔ e ∈ univ σ ∨ e ∈ E)
    (hL : ∀ e, e ∈ bufPartL σ' ↔ e ∈ bufPartL σ ∨ e ∈ E)
    (hF : frozenBuf σ' = frozenBuf σ) (hT : σ'.tabs = σ.tabs) (hfl : σ'.floor = σ.floor)
    (hfd : σ'.flushed = σ.flushed)
    (hnew : ∀ e ∈ E, ∀ u ∈ univ σ, u.seq < e.seq) : Cover c σ' := by
  have hB : ∀ e, e ∈ bufPart σ' ↔ e ∈ bufPart σ ∨ e ∈ E := by
    intro e
    simp only [bufPart, List.mem_append, hL, hF]
    constructor
    · rintro ((h | h) | h)
      · exact Or.inl (Or.inl h)
      · exact Or.inr h
      · exact Or.inl (Or.inr h)
    · rintro ((h | h) | h)
      · exact Or.inl (Or.inl h)
      · exact Or.inr h
      · exact Or.inl (Or.inr h)
  constructor
  · intro h hh
    rcases (hU h).1 hh with hh | hh
    · rcases hc.intact h hh with h1 | h1
      · exact Or.inl ((hB h).2 (Or.inl h1))
      · refine Or.inr (fun x hx => ?_)
        rcases (hB x).1 hx with hx | hx
        · exact h1 x hx
        · exact hnew x hx h hh
    · exact Or.inl ((hB h).2 (Or.inr hh))
  · intro f hf m hm
    rw [hF] at hf
    rcases (hL m).1 hm with hm | hm
    · exact hc.order f hf m hm
    · exact hnew m hm f (hb.frozenBuf_univ f hf)
  · intro k s hs
    rw [hfl] at hs
    apply view_write hb'.uniq hU _ hb.src_univ hnew (hc.cov k s hs)
    intro e
    simp only [List.mem_append, hB, hT]
    constructor
    · rintro ((h | h) | h)
      · exact Or.inl (Or.inl h)
      · exact Or.inr h
      · exact Or.inl (Or.inr h)
    · rintro ((h | h) | h)
      · exact Or.inl (Or.inl h)
      · exact Or.inr h
      · exact Or.inl (Or.inr h)
  · intro hf k s hs
    rw [hfl] at hs
    rw [hfd] at hf
    apply view_write hb'.uniq hU _ hb.srcL_univ hnew (hc.cov2 hf k s hs)
    intro e
    simp only [List.mem_append, hL, hT]
    constructor
    · rintro ((h | h) | h)
      · exact Or.inl (Or.inl h)
      · exact Or.inr h
      · exact Or.inl (Or.inr h)
    · rintro ((h | h) | h)
      · exact Or.inl (Or.inl h)
      · exact Or.inr h
      · exact Or.inl (Or.inr h)


/-- generic: nothing a read depends on changed -/
theorem cover_eq {σ σ' : State} (hc : Cover c σ)
    (hU : univ σ' = univ σ) (hL : bufPartL σ' = bufPartL σ) (hF : frozenBuf σ' = frozenBuf σ)
    (hT : σ'.tabs = σ.tabs) (hfl : σ'.floor = σ.floor) (hfd : σ'.flushed = σ.flushed) : Cover c σ' := by
  constructor
  · simp only [bufPart, hU, hL, hF]; exact hc.intact
  · simp only [hL, hF]; exact hc.order
  · simp only [bufPart, hU, hL, hF, hT, hfl]; exact hc.cov
  · simp only [hU, hL, hT, hfl, hfd]; exact hc.cov2

theorem cover_writeInsert {σ σ' : State} {es : List Entry} (hb : Basic σ) (hb' : Basic σ') (hc : Cover c σ)
    (h : doWriteInsert σ es = some σ') : Cover c σ' := by
  obtain ⟨g1, g2, rfl⟩ := doWriteInsert_some h
  obtain ⟨hc1, _⟩ := consec_spec _ _ g2
  have hP : privOf σ.tr = [] := by rw [g1]; rfl
  apply cover_write (E := es) hb hb' hc
  · intro e
    simp only [univ, List.mem_append]
    constructor
    · rintro ((h | h) | h)
      · exact Or.inl (Or.inl h)
      · exact Or.inr h
      · exact Or.inl (Or.inr h)
    · rintro ((h | h) | h)
      · exact Or.inl (Or.inl h)
      · exact Or.inr h
      · exact Or.inl (Or.inr h)
  · intro e
    simp only [bufPartL, memBuf]
    rw [getBuf_wi σ _ es _ rfl]
    simp only [if_true, List.mem_append, or_assoc]
  · simp only [frozenBuf]
    cases hf : σ.frozen with
    | none => rfl
    | some f =>
      simp only [optBuf]
      rw [getBuf_wi σ _ es _ rfl]
      have : f ≠ σ.mem := by intro h; apply hb.frozenNe; rw [hf, h]
      simp only [this, if_false]
  · rfl
  · rfl
  · rfl
  · intro e he u hu
    have h1 := hb.bound u hu
    rw [hP] at h1
    have := (hc1 e he).1
    simp only [List.length_nil] at h1
    omega

theorem cover_rotate {σ σ' : State} (hb : Basic σ) (hb' : Basic σ') (hc : Cover c σ)
    (h : doRotate σ = some σ') : Cover c σ' := by
  obtain ⟨g1, g2, g3, rfl⟩ := doRotate_some h
  have hX : privOut σ.tr = [] := by rw [g1]; rfl
  have hfresh : getBuf σ σ.nextId = [] := hb.fresh _ (Nat.le_refl _)
  have hFold : frozenBuf σ = [] := by simp only [frozenBuf, g3, optBuf]
  have hB : ∀ e, e ∈ (privOut σ.tr ++ getBuf σ σ.nextId) ++ getBuf σ σ.mem ↔ e ∈ bufPart σ := by
    intro e
    simp only [bufPart, bufPartL, memBuf, hfresh, hFold, List.append_nil]
  constructor
  · intro h hh
    rcases hc.intact h hh with h1 | h1
    · exact Or.inl ((hB h).2 h1)
    · exact Or.inr (fun x hx => h1 x ((hB x).1 hx))
  · intro f _ m hm
    have : m ∈ privOut σ.tr ++ getBuf σ σ.nextId := hm
    rw [hX, hfresh] at this; cases this
  · intro k s hs
    apply view_sets hb'.uniq (fun e => Iff.rfl) _ hb.src_univ (hc.cov k s hs)
    intro e
    show e ∈ ((privOut σ.tr ++ getBuf σ σ.nextId) ++ getBuf σ σ.mem) ++ σ.tabs ↔ _
    constructor
    · intro h
      rcases List.mem_append.1 h with h | h
      · exact List.mem_append_left _ ((hB e).1 h)
      · exact List.mem_append_right _ h
    · intro h
      rcases List.mem_append.1 h with h | h
      · exact List.mem_append_left _ ((hB e).2 h)
      · exact List.mem_append_right _ h
  · intro hf; cases hf

theorem cover_flushInstall {σ σ' : State} (hb : Basic σ) (hb' : Basic σ') (hc : Cover c σ)
    (h : doFlushInstall σ = some σ') : Cover c σ' := by
  obtain ⟨f, g1, g2, rfl⟩ := doFlushInstall_some h
  have hF : frozenBuf σ = getBuf σ f := by simp only [frozenBuf, g1, optBuf]
  constructor
  · exact hc.intact
  · exact hc.order
  · intro k s hs
    apply view_sets hb'.uniq (fun e => Iff.rfl) _ hb.src_univ (hc.cov k s hs)
    intro e
    show e ∈ bufPart σ ++ (σ.tabs ++ getBuf σ f) ↔ _
    simp only [List.mem_append, bufPart, hF]
    constructor
    · rintro (h | h | h)
      · exact Or.inl h
      · exact Or.inr h
      · exact Or.inl (Or.inr h)
    · rintro (h | h)
      · exact Or.inl h
      · exact Or.inr (Or.inl h)
  · intro _ k s hs
    apply view_sets hb'.uniq (fun e => Iff.rfl) _ hb.src_univ (hc.cov k s hs)
    intro e
    show e ∈ bufPartL σ ++ (σ.tabs ++ getBuf σ f) ↔ _
    simp only [List.mem_append, bufPart, hF]
    constructor
    · rintro (h | h | h)
      · exact Or.inl (Or.inl h)
      · exact Or.inr h
      · exact Or.inl (Or.inr h)
    · rintro ((h | h) | h)
      · exact Or.inl h
      · exact Or.inr (Or.inr h)
      · exact Or.inr (Or.inl h)

theorem cover_flushDrop {σ σ' : State} (hc : Cover c σ)
    (h : doFlushDrop Cfg.real σ = some σ') : Cover c σ' := by
  obtain ⟨g1, g2, rfl⟩ := doFlushDrop_some h
  have g2 : σ.flushed = true := by
    rcases g2 with g2 | g2
    · exact g2
    · cases g2
  constructor
  · intro h hh
    show h ∈ bufPartL σ ++ [] ∨ ∀ x ∈ bufPartL σ ++ [], _
    rw [List.append_nil]
    exact hc.intactL h hh
  · intro f hf; cases hf
  · intro k s hs
    show view c ((bufPartL σ ++ []) ++ σ.tabs) k s = _
    rw [List.append_nil]
    exact hc.cov2 g2 k s hs
  · intro hf; cases hf

theorem cover_compStart {σ σ' : State} (hb : Basic σ) (hc : Cover c σ)
    (h : doCompStart σ = some σ') : Cover c σ' := by
  obtain ⟨g1, rfl⟩ := doCompStart_some h
  have hle : σ.floor ≤ minSeq σ := le_minSeq σ _ hb.floorPub hb.floorSnap
  constructor
  · exact hc.intact
  · exact hc.order
  · intro k s hs
    exact hc.cov k s (Nat.le_trans hle hs)
  · intro hf k s hs
    exact hc.cov2 hf k s (Nat.le_trans hle hs)

theorem cover_compCommit {σ σ' : State} {nt : List Entry} (hb : Basic σ) (hc : Cover c σ)
    (h : doCompCommit σ nt = some σ') (hg : guardP c σ (.compCommit nt)) : Cover c σ' := by
  obtain ⟨m, g1, g2, rfl⟩ := doCompCommit_some h
  have hm := hb.compLe m g1
  have hnt : ∀ e ∈ nt, e ∈ univ σ := fun e he => hb.tab_univ e (g2 e he)
  constructor
  · exact hc.intact
  · exact hc.order
  · intro k s hs
    exact view_comp_congr hb.uniq hb.bufPart_univ hb.tab_univ hnt
      (fun h hh _ => hc.intact h hh) (hc.cov k s hs)
      (hg m g1 k s (Nat.le_trans hm hs))
  · intro hf k s hs
    exact view_comp_congr hb.uniq hb.bufPartL_univ hb.tab_univ hnt
      (fun h hh _ => hc.intactL h hh) (hc.cov2 hf k s hs)
      (hg m g1 k s (Nat.le_trans hm hs))

theorem cover_trOpen {σ σ' : State} (hc : Cover c σ)
    (h : doTrOpen Cfg.real σ = some σ') : Cover c σ' := by
  obtain ⟨g1, g2, g3, g4, rfl⟩ := doTrOpen_some h
  apply cover_eq hc
  · simp [univ, g1, privOf]
  · simp [bufPartL, g1, privOut, memBuf, getBuf]
  · rfl
  · rfl
  · rfl
  · rfl

theorem cover_trGet {σ σ' : State} {k : Bytes} (hc : Cover c σ)
    (h : doTrGet c σ k = some σ') : Cover c σ' := by
  obtain ⟨t, g1, g2, rfl⟩ := doTrGet_some h
  apply cover_eq hc
  · simp [univ, g1, privOf]
  · simp [bufPartL, g1, privOut, memBuf, getBuf]
  · rfl
  · rfl
  · rfl
  · rfl

theorem cover_trPublish {σ σ' : State} (hc : Cover c σ)
    (h : doTrPublish σ = some σ') : Cover c σ' := by
  obtain ⟨t, g1, g2, rfl⟩ := doTrPublish_some h
  apply cover_eq hc
  · simp [univ, g1, privOf]
  · simp [bufPartL, g1, privOut, memBuf, getBuf, g2]
  · rfl
  · rfl
  · rfl
  · rfl

theorem cover_trPut {σ σ' : State} {e : Entry} (hb : Basic σ) (hb' : Basic σ') (hc : Cover c σ)
    (h : doTrPut σ e = some σ') : Cover c σ' := by
  obtain ⟨t, g1, g2, g3, rfl⟩ := doTrPut_some h
  obtain ⟨x1, x2, x3, x4⟩ := hb.trExcl t g1
  apply cover_write (E := [e]) hb hb' hc
  · intro e'
    simp only [univ, g1, privOf, List.mem_append, or_assoc]
  · intro e'
    simp only [bufPartL, g1, privOut, g2, memBuf, List.mem_append]
    simp only [Bool.false_eq_true, if_false, List.mem_append]
    constructor
    · rintro ((h | h) | h)
      · exact Or.inl (Or.inl h)
      · exact Or.inr h
      · exact Or.inl (Or.inr h)
    · rintro ((h | h) | h)
      · exact Or.inl (Or.inl h)
      · exact Or.inr h
      · exact Or.inl (Or.inr h)
  · rfl
  · rfl
  · rfl
  · rfl
  · intro e' he' u hu
    simp only [List.mem_singleton] at he'; subst he'
    have h1 := hb.bound u hu
    simp only [g1, privOf, x1, List.length_nil] at h1
    omega

theorem cover_trInstall {σ σ' : State} (hb : Basic σ) (hb' : Basic σ') (hc : Cover c σ)
    (h : doTrInstall σ = some σ') : Cover c σ' := by
  obtain ⟨t, g1, g2, rfl⟩ := doTrInstall_some h
  obtain ⟨x1, x2, x3, x4⟩ := hb.trExcl t g1
  have hF : frozenBuf σ = [] := by simp only [frozenBuf, x3, optBuf]
  have hL : bufPartL σ = t.priv := by simp [bufPartL, g1, privOut, g2, x2]
  have hB' : ∀ (tabs : List Entry), bufPart { σ with tabs := tabs, tr := some { t with installed := true } } = [] := by
    intro tabs
    show (privOut (some { t with installed := true }) ++ memBuf σ) ++ frozenBuf σ = []
    simp [privOut, x2, hF]
  constructor
  · intro h _
    rw [hB']
    exact Or.inr (fun x hx => by cases hx)
  · intro f hf
    have : f ∈ frozenBuf σ := hf
    rw [hF] at this; cases this
  · intro k s hs
    rw [hB']
    apply view_sets hb'.uniq _ _ hb.src_univ (hc.cov k s hs)
    · intro e'
      simp only [univ, g1, privOf]
    · intro e'
      show e' ∈ [] ++ (σ.tabs ++ t.priv) ↔ _
      simp only [bufPart, hL, hF, List.nil_append, List.append_nil, List.mem_append, or_comm]
  · intro hf
    exact absurd x3 (hb.flushedFrozen hf)

theorem cover_trDiscard {σ σ' : State} (hb : Basic σ) (hb' : Basic σ') (hc : Cover c σ)
    (h : doTrDiscard Cfg.real σ = some σ') : Cover c σ' := by
  obtain ⟨t, g1, g2, rfl⟩ := doTrDiscard_some h
  obtain ⟨x1, x2, x3, x4⟩ := hb.trExcl t g1
  have hF : frozenBuf σ = [] := by simp only [frozenBuf, x3, optBuf]
  have hL : bufPartL σ = t.priv := by simp [bufPartL, g1, privOut, g2, x2]
  have hB : bufPart σ = t.priv := by simp [bufPart, hL, hF]
  have hU : univ σ = σ.hist ++ t.priv := by simp [univ, g1, privOf]
  have hB' : ∀ (p : Nat) (gs : List Group), bufPart { σ with tr := none, pub := p, groups := gs } = [] := by
    intro p gs
    show (privOut none ++ memBuf σ) ++ frozenBuf σ = []
    simp [privOut, x2, hF]
  have htabs : ∀ e ∈ σ.tabs, e ∈ σ.hist := by
    intro e he
    rcases hb.tabSub e he with h | h
    · exact h
    · simp [g1, privIn, g2] at h
  have hpriv : ∀ e ∈ t.priv, σ.pub < e.seq := by
    intro e he; exact hb.privSeq e (by rw [g1]; exact he)
  have hhist := hb.hist_le x1
  have huniq := hb.uniq
  rw [hU] at huniq
  have huh : Uniq σ.hist := huniq.sub (fun e he => List.mem_append_left _ he)
  constructor
  · intro h _
    rw [hB']
    exact Or.inr (fun x hx => by cases hx)
  · intro f hf
    have : f ∈ frozenBuf σ := hf
    rw [hF] at this; cases this
  · intro k s hs
    rw [hB']
    show view c ([] ++ σ.tabs) k s = view c (σ.hist ++ []) k s
    rw [List.nil_append, List.append_nil]
    -- reading at `s` is reading at `p = min s pub`
    have hfp := hb.floorPub
    have key : ∀ p, σ.floor ≤ p → p ≤ σ.pub → view c σ.tabs k p = view c σ.hist k p := by
      intro p hp1 hp2
      have h1 := hc.cov k p hp1
      rw [hB, hU] at h1
      have e1 : view c (t.priv ++ σ.tabs) k p = view c σ.tabs k p := by
        apply view_congr_le huniq
        · intro e he
          rcases List.mem_append.1 he with he | he
          · exact List.mem_append_right _ he
          · exact List.mem_append_left _ (htabs e he)
        · intro e he; exact List.mem_append_left _ (htabs e he)
        · intro e hs'
          simp only [List.mem_append]
          exact ⟨fun h => h.elim (fun h => by have := hpriv e h; omega) id, Or.inr⟩
      have e2 : view c (σ.hist ++ t.priv) k p = view c σ.hist k p :=
        view_append_above huniq (fun e he => List.mem_append_left _ he)
          (fun e he => List.mem_append_right _ he) (fun e he => by have := hpriv e he; omega)
      rw [← e1, h1, e2]
    by_cases hsp : s ≤ σ.pub
    · exact key s hs hsp
    · have hps : σ.pub ≤ s := by omega
      rw [view_clip (huh.sub htabs) (fun e he => hhist e (htabs e he)) hps,
          view_clip huh hhist hps]
      exact key σ.pub hfp (Nat.le_refl _)
  · intro hf
    exact absurd x3 (hb.flushedFrozen hf)

/-- I3 is inductive (given I1/I2) -/
theorem cover_step {σ σ' : State} {a : Action} (hb : Basic σ) (hc : Cover c σ)
    (h : Step Cfg.real c σ a σ') : Cover c σ' := by
  have hb' := basic_step hb h
  obtain ⟨h, hg⟩ := h
  cases a with
  | writeInsert es => exact cover_writeInsert hb hb' hc h
  | publish => obtain ⟨_, rfl⟩ := doPublish_some h; exact { hc with }
  | seqSkip n => obtain ⟨_, _, rfl⟩ := doSeqSkip_some h; exact { hc with }
  | rotate => exact cover_rotate hb hb' hc h
  | flushInstall => exact cover_flushInstall hb hb' hc h
  | flushDrop => exact cover_flushDrop hc h
  | compStart => exact cover_compStart hb hc h
  | compCommit nt => exact cover_compCommit hb hc h hg
  | snapAcquire => have := doSnapAcquire_some h; subst this; exact { hc with }
  | snapRelease id => have := doSnapRelease_some h; subst this; exact { hc with }
  | rNew => have := doRNew_some h; subst this; exact { hc with }
  | rSeq i => obtain ⟨r, _, _, rfl⟩ := doRSeq_some h; exact { hc with }
  | rSeqSnap i id => obtain ⟨r, s, _, _, _, rfl⟩ := doRSeqSnap_some h; exact { hc with }
  | rMems i => obtain ⟨r, _, _, _, _, rfl⟩ := doRMems_some h; exact { hc with }
  | rVer i => obtain ⟨r, _, _, _, _, rfl⟩ := doRVer_some h; exact { hc with }
  | rLookup i k => obtain ⟨r, s, mf, v, _, _, _, _, rfl⟩ := doRLookup_some h; exact { hc with }
  | rRelease i => obtain ⟨r, _, _, _, _, rfl⟩ := doRRelease_some h; exact { hc with }
  | trOpen => exact cover_trOpen hc h
  | trPut e => exact cover_trPut hb hb' hc h
  | trGet k => exact cover_trGet hc h
  | trInstall => exact cover_trInstall hb hb' hc h
  | trPublish => exact cover_trPublish hc h
  | trDiscard => exact cover_trDiscard hb hb' hc h

theorem basic_cover_steps {σ σ' : State} (hb : Basic σ) (hc : Cover c σ) (h : Steps Cfg.real c σ σ') :
    Basic σ' ∧ Cover c σ' := by
  induction h with
  | refl => exact ⟨hb, hc⟩
  | tail a _ hs ih => exact ⟨basic_step ih.1 hs, cover_step ih.1 ih.2 hs⟩

theorem cover_reachable {σ : State} (h : Reachable Cfg.real c σ) : Cover c σ :=
  (basic_cover_steps basic_init (cover_init c) h).2

end GoLevel.Conc
