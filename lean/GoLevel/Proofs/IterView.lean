import GoLevel.Proofs.IterDBOps
/-!
# The visible list: sorted by user key, agrees with `view`, commutes with range restriction;
# forward enumeration and membership facts about the specification cursor

Core Lean only.
-/
namespace GoLevel

/-! ## `visible` is strictly sorted by user key -/

section
variable {c : UCmp} (hl : LawfulUCmp c) {es : List Entry} (hs : SortedEntries c es)
include hl hs

omit hs in
theorem isVisible_max (seq : Nat) (e e' : Entry) (h : isVisible c es seq e = true) (hm : e' ∈ es)
    (hu : e'.ukey = e.ukey) (hc : e'.seq ≤ seq) : e'.key.num ≤ e.key.num := by
  simp only [isVisible, Bool.and_eq_true, decide_eq_true_eq, List.all_eq_true, Bool.or_eq_true,
    Bool.not_eq_true', Bool.and_eq_false_iff, beq_eq_false_iff_ne, ne_eq, decide_eq_false_iff_not] at h
  rcases h.2 e' hm with (h1 | h1) | h1
  · rw [hu, hl.refl] at h1; exact absurd rfl h1
  · exact absurd hc h1
  · exact h1

theorem visList_sorted (seq : Nat) :
    (visList c es seq).Pairwise (fun a b => c.cmp a.ukey b.ukey = .lt) := by
  have hsub : (visList c es seq).Pairwise (fun a b => ecmp c a b = .lt) :=
    List.Pairwise.sublist List.filter_sublist hs
  have hmem : ∀ a ∈ visList c es seq, a ∈ es ∧ isVisible c es seq a = true := fun a ha =>
    List.mem_filter.1 ha
  refine List.Pairwise.imp_of_mem ?_ hsub
  intro a b ha hb hlt
  rcases (icmp_order hl _ _).1 hlt with h | ⟨hu, hn⟩
  · exact h
  · exfalso
    have ⟨hae, hav⟩ := hmem a ha
    have ⟨hbe, hbv⟩ := hmem b hb
    have := isVisible_max hl seq b a hbv hae hu (isVisible_seq c es seq a hav)
    omega

/-- the live pairs come out in strictly increasing comparer order (so each user key at most once) -/
theorem visible_sorted (seq : Nat) :
    (visible c es seq).Pairwise (fun a b => c.cmp a.1 b.1 = .lt) := by
  rw [visible_eq, List.pairwise_map]
  exact visList_sorted hl hs seq

end

/-! ## `visible` agrees with `view` -/

/-- candidate of `newest` -/
def candB (c : UCmp) (k : Bytes) (s : Nat) (e : Entry) : Prop := c.cmp e.ukey k = .eq ∧ e.seq ≤ s

def newestFoldStep (c : UCmp) (k : Bytes) (s : Nat) (best : Option Entry) (e : Entry) : Option Entry :=
  if c.cmp e.ukey k = .eq ∧ e.seq ≤ s then
    match best with
    | some b => if e.key.num > b.key.num then some e else best
    | none => some e
  else best

theorem newest_eq_foldStep (c : UCmp) (es : List Entry) (k : Bytes) (s : Nat) :
    newest c es k s = es.foldl (newestFoldStep c k s) none := rfl

theorem foldl_newest_none (c : UCmp) (k : Bytes) (s : Nat) (es : List Entry) (best : Option Entry) :
    es.foldl (newestFoldStep c k s) best = none ↔ best = none ∧ ∀ e ∈ es, ¬ candB c k s e := by
  induction es generalizing best with
  | nil => simp
  | cons x xs ih =>
    rw [List.foldl_cons, ih]
    by_cases hx : c.cmp x.ukey k = .eq ∧ x.seq ≤ s
    · have : newestFoldStep c k s best x ≠ none := by
        simp only [newestFoldStep, if_pos hx]
        cases best with
        | none => simp
        | some b => simp only; split <;> simp
      constructor
      · intro h; exact absurd h.1 this
      · intro h; exact absurd hx (h.2 x (by simp))
    · simp only [newestFoldStep, if_neg hx]
      constructor
      · rintro ⟨h1, h2⟩
        refine ⟨h1, ?_⟩
        intro e he
        rcases List.mem_cons.1 he with rfl | h
        · exact hx
        · exact h2 e h
      · rintro ⟨h1, h2⟩
        exact ⟨h1, fun e he => h2 e (List.mem_cons_of_mem _ he)⟩

theorem foldl_newest_some (c : UCmp) (k : Bytes) (s : Nat) (es : List Entry) (best : Option Entry) (r : Entry)
    (h : es.foldl (newestFoldStep c k s) best = some r) :
    (best = some r ∨ (r ∈ es ∧ candB c k s r)) ∧ (∀ b, best = some b → b.key.num ≤ r.key.num) ∧
      ∀ e ∈ es, candB c k s e → e.key.num ≤ r.key.num := by
  induction es generalizing best with
  | nil =>
    simp only [List.foldl_nil] at h
    exact ⟨.inl h, fun b hb => by rw [h] at hb; cases hb; exact Nat.le_refl _, by simp⟩
  | cons x xs ih =>
    rw [List.foldl_cons] at h
    obtain ⟨h1, h2, h3⟩ := ih _ h
    by_cases hx : c.cmp x.ukey k = .eq ∧ x.seq ≤ s
    · -- x is a candidate
      cases best with
      | none =>
        have hstep : newestFoldStep c k s none x = some x := by simp [newestFoldStep, hx]
        rw [hstep] at h1 h2
        refine ⟨?_, by simp, ?_⟩
        · rcases h1 with h1 | h1
          · cases h1; exact .inr ⟨by simp, hx⟩
          · exact .inr ⟨List.mem_cons_of_mem _ h1.1, h1.2⟩
        · intro e he hc
          rcases List.mem_cons.1 he with rfl | he
          · exact h2 _ rfl
          · exact h3 e he hc
      | some b =>
        by_cases hgt : x.key.num > b.key.num
        · have hstep : newestFoldStep c k s (some b) x = some x := by simp [newestFoldStep, hx, hgt]
          rw [hstep] at h1 h2
          refine ⟨?_, ?_, ?_⟩
          · rcases h1 with h1 | h1
            · cases h1; exact .inr ⟨by simp, hx⟩
            · exact .inr ⟨List.mem_cons_of_mem _ h1.1, h1.2⟩
          · intro b' hb'; cases hb'
            have := h2 x rfl; omega
          · intro e he hc
            rcases List.mem_cons.1 he with rfl | he
            · exact h2 _ rfl
            · exact h3 e he hc
        · have hstep : newestFoldStep c k s (some b) x = some b := by simp [newestFoldStep, hx, hgt]
          rw [hstep] at h1 h2
          refine ⟨?_, ?_, ?_⟩
          · rcases h1 with h1 | h1
            · exact .inl h1
            · exact .inr ⟨List.mem_cons_of_mem _ h1.1, h1.2⟩
          · intro b' hb'; cases hb'; exact h2 _ rfl
          · intro e he hc
            rcases List.mem_cons.1 he with rfl | he
            · have := h2 b rfl; omega
            · exact h3 e he hc
    · have hstep : newestFoldStep c k s best x = best := by simp [newestFoldStep, hx]
      rw [hstep] at h1 h2
      refine ⟨?_, h2, ?_⟩
      · rcases h1 with h1 | h1
        · exact .inl h1
        · exact .inr ⟨List.mem_cons_of_mem _ h1.1, h1.2⟩
      · intro e he hc
        rcases List.mem_cons.1 he with rfl | he
        · exact absurd hc hx
        · exact h3 e he hc

section
variable {c : UCmp} (hl : LawfulUCmp c) {es : List Entry} (hs : SortedEntries c es)
include hl hs

/-- in a strictly sorted list the internal key determines the entry -/
theorem entry_eq_of_key (a b : Entry) (ha : a ∈ es) (hb : b ∈ es) (hk : a.key = b.key) : a = b := by
  obtain ⟨i, hi, rfl⟩ := List.getElem_of_mem ha
  obtain ⟨j, hj, rfl⟩ := List.getElem_of_mem hb
  rcases Nat.lt_trichotomy i j with h | h | h
  · have := sorted_idx hs i j _ _ h (List.getElem?_eq_getElem hi) (List.getElem?_eq_getElem hj)
    rw [hk] at this; exact absurd this (icmp_irrefl hl _)
  · subst h; rfl
  · have := sorted_idx hs j i _ _ h (List.getElem?_eq_getElem hj) (List.getElem?_eq_getElem hi)
    rw [hk] at this; exact absurd this (icmp_irrefl hl _)

/-- `newest` is the visible-or-deleted entry: characterisation on a sorted list -/
theorem newest_eq_some_iff (k : Bytes) (s : Nat) (e : Entry) :
    newest c es k s = some e ↔
      e ∈ es ∧ e.ukey = k ∧ e.seq ≤ s ∧ ∀ e' ∈ es, e'.ukey = k → e'.seq ≤ s → e'.key.num ≤ e.key.num := by
  rw [newest_eq_foldStep]
  constructor
  · intro h
    obtain ⟨h1, _, h3⟩ := foldl_newest_some c k s es none e h
    rcases h1 with h1 | ⟨hm, hc⟩
    · exact absurd h1 (by simp)
    · exact ⟨hm, hl.eq_of _ _ hc.1, hc.2, fun e' he' hu hs' => h3 e' he' ⟨by rw [hu]; exact hl.refl _, hs'⟩⟩
  · rintro ⟨hm, hu, hc, hmax⟩
    cases hr : es.foldl (newestFoldStep c k s) none with
    | none =>
      have := ((foldl_newest_none c k s es none).1 hr).2 e hm
      exact absurd ⟨by rw [hu]; exact hl.refl _, hc⟩ this
    | some r =>
      obtain ⟨h1, _, h3⟩ := foldl_newest_some c k s es none r hr
      rcases h1 with h1 | ⟨hrm, hrc⟩
      · exact absurd h1 (by simp)
      · have hru := hl.eq_of _ _ hrc.1
        have hle1 := hmax r hrm hru hrc.2
        have hle2 := h3 e hm ⟨by rw [hu]; exact hl.refl _, hc⟩
        have hkey : r.key = e.key := by
          have h1 : r.key.ukey = e.key.ukey := by
            show r.ukey = e.ukey
            rw [hru, hu]
          have h2 : r.key.num = e.key.num := by omega
          cases hr' : r.key; cases he' : e.key
          simp_all
        rw [entry_eq_of_key hl hs r e hrm hm hkey]

/-- **`visible` is the view**: `k ↦ v` is presented iff a reader at `seq` sees `v` for `k` -/
theorem mem_visible_iff_view (seq : Nat) (k v : Bytes) :
    (k, v) ∈ visible c es seq ↔ view c es k seq = some v := by
  simp only [visible, List.mem_map, List.mem_filter, Prod.mk.injEq]
  constructor
  · rintro ⟨e, ⟨hm, hv⟩, hu, hval⟩
    have hnew : newest c es k seq = some e := by
      rw [newest_eq_some_iff hl hs]
      refine ⟨hm, hu, isVisible_seq c es seq e hv, ?_⟩
      intro e' he' hu' hs'
      exact isVisible_max hl seq e e' hv he' (by rw [hu', hu]) hs'
    have hkind : e.kind = Gen.keyTypeVal := by
      simp only [isVisible, Bool.and_eq_true, decide_eq_true_eq] at hv
      exact hv.1.2
    simp [view, hnew, Entry.hit, hkind, Hit.toOption, hval]
  · intro h
    simp only [view] at h
    cases hn : newest c es k seq with
    | none => rw [hn] at h; simp at h
    | some e =>
      rw [hn] at h
      simp only at h
      obtain ⟨hm, hu, hc, hmax⟩ := (newest_eq_some_iff hl hs k seq e).1 hn
      have hkind : e.kind = Gen.keyTypeVal ∧ e.val = v := by
        simp only [Entry.hit] at h
        split at h
        · rename_i hk; simp only [Hit.toOption, Option.some.injEq] at h; exact ⟨hk, h⟩
        · simp [Hit.toOption] at h
      refine ⟨e, ⟨hm, ?_⟩, hu, hkind.2⟩
      simp only [isVisible, Bool.and_eq_true, decide_eq_true_eq, List.all_eq_true, Bool.or_eq_true,
        Bool.not_eq_true', Bool.and_eq_false_iff, beq_eq_false_iff_ne, ne_eq, decide_eq_false_iff_not]
      refine ⟨⟨hc, hkind.1⟩, ?_⟩
      intro e' he'
      by_cases hce : c.cmp e'.ukey e.ukey = .eq
      · by_cases hse : e'.seq ≤ seq
        · exact .inr (hmax e' he' (by rw [hl.eq_of _ _ hce, hu]) hse)
        · exact .inl (.inr hse)
      · exact .inl (.inl hce)

end

end GoLevel
