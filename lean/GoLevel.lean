-- Root of the `GoLevel` library: models, proofs and property theorems.
import GoLevel.Gen.Consts
import GoLevel.Model.Bytes
import GoLevel.Model.Key
import GoLevel.Model.Filter
