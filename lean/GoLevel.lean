-- Root of the `GoLevel` library: models, proofs and property theorems.
import GoLevel.Gen.Consts
import GoLevel.Model.Bytes
import GoLevel.Model.Key
import GoLevel.Model.Filter
import GoLevel.Model.LSM
import GoLevel.Proofs.Bytes
import GoLevel.Proofs.Key
import GoLevel.Props.C15
